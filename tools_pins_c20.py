"""Regenerates regress/C20/D13-pins.json: recorded behaviour of the modular grammar on the deterministic
override + multi-path corpus (known finding D13 tolerates the defect class; the pins keep other changes visible)."""
import json, sys
sys.path.insert(0, '/verif')
from pv import core
from pv.props import c20
pins = {}
for case in c20.enum_multipath_overrides('quick'):
    ctx = core.Ctx(enabled_findings=["D13"])
    ctx._recording = {}
    with core.quiet():
        try:
            c20.run_case(case, ctx)
        except core.Violation:
            pass
    pins.update(ctx._recording)
json.dump({"comment": "hash(files) -> summary of what the modular grammar does (exception type or hash of symbols + GLR outcomes)",
           "pins": pins}, open('/verif/regress/C20/D13-pins.json', 'w'), indent=0, sort_keys=True)
print(len(pins), "pins")
