#!/bin/sh
# Runs the repository's pinned baseline (264 stable tests; the two pglr tests
# fail in this sandbox before and after any change and are not in the baseline).
cd /repo && exec /venv/bin/python -m pytest -ra -q -p no:cacheprovider --timeout=900 --continue-on-collection-errors "$@"
