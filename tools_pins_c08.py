"""Regenerates regress/C08/D17-pins.json: the recorded manifestation of known finding D17 (which node of which GLR
tree disagrees with which parent by layout only) on the deterministic corpus of pv/props/c08.py enum_d17.  Run only
when D17's status changes:  PYTHONHASHSEED=0 /venv/bin/python tools_pins_c08.py"""
import json, sys
sys.path.insert(0, '/verif')
from pv import core
from pv.props import c08
cases, pins = set(), {}
for case in c08.enum_d17('quick'):
    ctx = core.Ctx(enabled_findings=["D17"])
    ctx._recording = {}
    with core.quiet():
        try:
            c08.run_case(case, ctx)
        except core.Violation as v:
            print("violation while recording:", v.kind)
    cases |= ctx._recording.get("cases", set())
    pins.update(ctx._recording.get("pins", {}))
json.dump({"comment": "cases: hash(grammar, layout, fill, max_len) of the recorded corpus; pins: hash(grammar, layout, input) -> hash of the D17 discrepancies seen in the first 40 trees (inputs of a recorded case that are absent here showed none)",
           "cases": sorted(cases), "pins": pins}, open('/verif/regress/C08/D17-pins.json', 'w'), indent=0, sort_keys=True)
print(len(cases), "cases", len(pins), "pins")
