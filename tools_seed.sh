#!/bin/bash
# usage: tools_seed.sh <PROP> <k>  - confirm a sub-agent's seeded change in a scratch worktree and file it under /verif/seeded/
P=$1; K=$2
src=${SRC:-/tmp/mut-$P/out}
id=${ID:-$P-m$K}
wt=/tmp/seedchk-$id
dst=/verif/seeded/$id
[ -f $src/m$K.diff ] || { echo "no diff"; exit 2; }
git -C /repo worktree add -q $wt HEAD || exit 2
cd $wt
demo_clean=$(PYTHONPATH=$wt timeout 300 /venv/bin/python $src/m${K}_demo.py >/dev/null 2>&1; echo $?)
applied=ok
git apply $src/m$K.diff 2>/dev/null || { git apply --3way $src/m$K.diff 2>/dev/null && git reset -q; } || applied=FAILED
demo_mut=$(PYTHONPATH=$wt timeout 300 /venv/bin/python $src/m${K}_demo.py >/dev/null 2>&1; echo $?)
git diff > /tmp/seed-$id.diff
suite=$(PYTHONPATH=$wt timeout 900 /venv/bin/python -m pytest -q -p no:cacheprovider tests/func --deselect tests/func/pglr/test_pglr.py 2>&1 | tail -1)
cd /
git -C /repo worktree remove --force $wt
echo "$id: apply=$applied demo_clean_exit=$demo_clean demo_mutated_exit=$demo_mut suite: $suite"
if [ "$applied" = ok ] && [ "$demo_clean" = 0 ] && [ "$demo_mut" != 0 ] && echo "$suite" | grep -q "264 passed"; then
  mkdir -p $dst
  cp /tmp/seed-$id.diff $dst/patch.diff
  cp $src/m${K}_demo.py $dst/demo.py
  cp $src/m$K.txt $dst/notes.txt
  echo "CONFIRMED $id"
else
  echo "NOT-CONFIRMED $id"
fi
rm -f /tmp/seed-$id.diff
