"""Fills DESIGN.md section 9 (RESULTS-TABLE-1/2, RESULTS-THOROUGH placeholders or the previously generated
blocks between the BEGIN/END markers) from evidence/*.json, seeded/*/meta.json, sweep logs and a thorough log.
usage: tools_results_md.py results/thorough-seed1.log results/sweep-rounds-1-2.log results/sweep-round-3.log"""
import glob
import json
import os
import re
import sys

thorough = {}
for line in open(sys.argv[1]):
    m = re.match(r"(C\d+) exit=(\d+) (\d+)s C\d+ tier=thorough seed=(\d+): (\d+) cases \((\d+) distinct non-trivial\)", line)
    if m:
        thorough[m.group(1)] = (int(m.group(2)), int(m.group(3)), int(m.group(5)), int(m.group(6)))
sweep = {}
for path in sys.argv[2:]:
    for line in open(path):
        m = re.match(r"== (\S+)/patch.diff on (C\d+): exit=(\d) (\d+) violations", line)
        if m:
            sweep.setdefault(m.group(1), {})[m.group(2)] = (int(m.group(3)), int(m.group(4)))

t1 = ["| prop. | quick: cases | distinct non-trivial | excluded-known | wall (s) | known findings enabled | thorough: cases | distinct non-trivial | wall (s) |",
      "|---|---|---|---|---|---|---|---|---|"]
tq = tt = 0
for f in sorted(glob.glob("/verif/evidence/C*.json")):
    e = json.load(open(f))
    c = e["coverage"]
    th = thorough.get(e["property_id"], (0, 0, 0, 0))
    tq += c["evaluations"]
    tt += th[2]
    t1.append("| %s | %d | %d | %d | %.0f | %s | %d | %d | %d |" % (
        e["property_id"], c["evaluations"], c["distinct_nontrivial"], sum(c["excluded_known"].values()),
        e["wall_s"], ", ".join(c["known_findings_enabled"]) or "-", th[2], th[3], th[1]))
t1.append("| all | %d | | | | | %d | | %d |" % (tq, tt, sum(v[1] for v in thorough.values())))

t2 = ["| seeded change | what it is (first line of the sub-agent's note) | quick checks that report it (violations) | history |",
      "|---|---|---|---|"]
missed_first = 0
for d in sorted(glob.glob("/verif/seeded/C*-m*")):
    mid = os.path.basename(d)
    m = json.load(open(os.path.join(d, "meta.json")))
    note = m["what_it_breaks_and_needs"].strip().split("\n")[0][:170].replace("|", "\\|")
    res = sweep.get(mid, {})
    caught = ", ".join("%s (%d)" % (p, v[1]) for p, v in sorted(res.items()) if v[0] == 1) or \
        ", ".join(m["detected_by_quick_checks"])
    missed = ", ".join(p for p, v in sorted(res.items()) if v[0] != 1)
    if "missed at first" in m["history"] or "would have been missed" in m["history"]:
        missed_first += 1
    t2.append("| %s | %s | %s%s | %s |" % (mid, note, caught, ("; not by " + missed) if missed else "",
                                          m["history"].replace("|", "\\|")))
s = open("/verif/DESIGN.md").read()


def put(name, text):
    global s
    block = "<!-- BEGIN %s -->\n%s\n<!-- END %s -->" % (name, text, name)
    if name in s and "<!-- BEGIN %s -->" % name not in s:
        s = s.replace(name, block, 1)
    else:
        s = re.sub(r"<!-- BEGIN %s -->.*?<!-- END %s -->" % (name, name), lambda _: block, s, flags=re.S)


put("RESULTS-TABLE-1", "\n".join(t1))
put("RESULTS-TABLE-2", "\n".join(t2))
open("/verif/DESIGN.md", "w").write(s)
print("seeded:", len(t2) - 2, "missed at first:", missed_first, "quick cases:", tq, "thorough cases:", tt)
