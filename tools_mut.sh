#!/bin/bash
# usage: tools_mut.sh <diff> <prop> [<prop> ...]   - apply a seeded change to /repo, run quick checks, undo.
d=$1; shift
cd /repo || exit 2
if ! git diff --quiet; then echo "repo dirty"; exit 2; fi
if ! git apply "$d" 2>/dev/null; then
  if ! git apply --3way "$d" 2>/dev/null; then echo "APPLY-FAILED $d"; git reset -q --hard HEAD; exit 3; fi
  git reset -q
fi
for p in "$@"; do
  out=$(cd /verif && timeout 900 /venv/bin/python -m pv.run $p --tier quick 2>&1)
  rc=$?
  echo "== $d on $p: exit=$rc $(echo "$out" | grep -c '^VIOLATION') violations"
  echo "$out" | grep -E "^  [a-zA-Z0-9-]+: " | head -3 | cut -c1-300
  echo "$out" | grep -E "HARNESS" | head -2 | cut -c1-300
done
git checkout -- .
git status --short | grep -v '^??' | head
