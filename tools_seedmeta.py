"""Writes seeded/<id>/meta.json from the confirmation notes and the detection table below."""
import json, os, glob
STRENGTHENED = {
 "C03-m1": "missed at first (the duplicates it adds fall into known finding D2's signature); caught after the D2 manifestation was pinned on an exhaustive epsilon-grammar corpus (regress/C03/D2-pins.json: clean grammars must stay clean)",
 "C04-m1": "missed by C04 at first (caught by C05); caught by C04 after the nullable-chain grammar family was added",
 "C05-m2": "missed at first; caught after the refused-merge grammar family (LR(1)-but-not-LALR(1) pattern with a third item sharing the prefix) was added",
 "C07-m1": "missed at first; caught after explicit nofinish marks were also generated on regex/custom terminals",
 "C14-m1": "missed at first; caught after four more LAYOUT formulations (left recursion with EMPTY base etc.) were added to the ws-vs-LAYOUT clause",
 "C16-m2": "not visible to C16 (needs a warm cache); caught by C12's cache-transparency histories",
 "C17-m1": "missed at first; caught after terminal priorities (irrelevant for a non-overlapping lexicon) were added to the generated grammars",
 "C18-m2": "missed at first; caught after the call-log completeness clause (every marked shift/reduction reaches the filter) and marking of the atom production were added",
 "C20-m2": "missed at first (override inside an import cycle falls into known finding D13's class); caught after the D13 class was pinned on a deterministic override + multi-path corpus (regress/C20/D13-pins.json)",
 "C11-m2": "the sub-agent's diff touched the lines repaired by fix F16 and was ported by hand onto the repaired code (failed heads also set the span end)",
 "C19-m1": "ported by hand onto the repaired keyword code (fix F13): keyword terminals rank 2 characters longer in the action order",
 "C07-m3": "round 2; missed at first (the scan order breaks ties by terminal name and every regex name sorted before the string names); caught after regex terminals whose names sort after/before the string terminals' names were added to the pool",
 "C08-m3": "round 2; missed at first; caught after terminals that match across a space (a(\\ a)? next to a) were added: heads with different layout ahead then meet in one GSS node",
 "C06-m3": "round 2; missed at first (needs a shared priority outside CPython's small-integer cache); caught after priorities 255..70000 were added",
 "C04-m4": "round 2; not visible to C04/C05 (duplicate state ids only matter after a save/load); caught by C12 after the round-trip clause was strengthened to walk the saved and the loaded automaton in lock step and the refused-merge family was added to it",
 "C09-m4": "round 2; would have been missed (the reference took the alternative index from parglare's own numbering); the reference now decides the alternative from the children's symbols and rules defined in two places are generated; caught",
 "C11-m4": "round 2; would have been missed; the 'raises the last SyntaxError' clause now compares the raised error with the last error handed to the (wrapped) strategy; caught",
 "C12-m3": "round 2; would have been missed with one import level; a second-level import (leaf.pg) with edit/touch operations was added before it was run; caught",
 "C02-m3": "round 2; crossing lexical overlap (a|ab|bc|c on 'abc') was added as a lexicon family before it was run; caught",
 "C03-m4": "round 2; forests beyond 2**63 trees (41 tokens of S: S S | a) were added before it was run; caught",
 "C15-m3": "round 2; missed at first (the raising recognizer only raised where nothing else matched, so no head had found its token yet); caught after the recognizer also raises on a terminal's text followed by '!' and grammars with two heads in different states on one frontier (plus targeted inputs) were added",
 "C15-m4": "round 2; missed at first (inputs never began with layout); caught after generated layout before the first token was added",
 "C16-m3": "round 2; not visible between hash seeds; caught by C12's round trip as it stood, and by C16 after the worker started to compare a second construction (which loads the cached table) with the first",
 "C16-m4": "round 2; missed at first (needs heavily ambiguous nullable grammars); caught after the sub-check hash-seed-nullable-ambiguous was added",
 "C17-m4": "round 2; missed at first (trees were compared without the root's span); caught after 'the root ends where its own prefix ends' was added",
 "C18-m3": "round 2; missed at first (no nullable production was ever marked dynamic); caught after the Sign: '~' | EMPTY {dynamic} rule was added",
 "C18-m4": "round 2; missed at first (terminal-only marking was never built with LR); caught after the one-sided marking family was added",
 "C20-m4": "round 2; missed at first (no KEYWORD terminal in multi-file grammars); caught after an optional KEYWORD in the root file and glued inputs were added. While doing so a harness bug surfaced: the strict 'modular-differs-from-flattened' report passed a keyword twice and would have ended in a harness error (exit 2) instead of a VIOLATION; fixed, and tools_lint.py now looks for this pattern",
 "C07-m6": "round 3; a pass-through custom_token_recognition hook (documented as 'no change') and GLR with lexical_disambiguation=True were added as parser configurations before it was run; caught",
 "C12-m6": "round 3; missed at first (one root grammar per directory; and with grammars over different symbols the tolerant cache load of F15 hides a foreign table); caught after the sub-check sibling-root-grammars (two root files whose names share a stem, dialects over the same symbols) was added",
 "C15-m5": "round 3; missed at first (user code only ever raised RuntimeError); caught after the exception class raised by the recognizer / action became a generated value",
 "C16-m5": "round 3; missed at first (forests were only built with consume_input=True: one accepted head); caught after the worker also built the prefix forests (consume_input=False)",
 "C18-m5": "round 3; missed at first; caught after the sub-check span-keyed-filters was added: an arbitrary consistent filter (a generated 64-bit mask over action kind, production / terminal and span in tokens) on grammars with nullable operators and a terminal that is both infix and prefix; GLR must return exactly the unfiltered trees without a rejected decision, an LR result must contain no decision that was rejected and never accepted",
 "C18-m6": "round 3; missed at first (an EMPTY reduction was never offered after a non-empty one in the same action list); caught by the same sub-check's call-log clause",
 "C20-m6": "round 3; a cache staleness defect (only the last-loaded file decides): C20 deletes caches between builds and cannot see it; caught by C12's histories as they stood",
 "C05-m5": "round 3; missed at first (every table was built from a fresh Grammar object); caught after cases that build the table for the other start production (LAYOUT / main rule) first on the same Grammar object - which is what Parser() does - were added",
 "C08-m5": "round 3; missed at first: its symptom (a child outside its parent's span by layout only) is exactly known finding D17's class; caught after D17 got a pinned corpus (d17-pinned-corpus: classics, epsilon family and rules with an EMPTY production next to another derivation of the same tokens; the recorded manifestation is required exactly)",
 "C09-m5": "round 3; missed at first (every parser got a fresh Grammar object); caught after the Grammar object was optionally used with a decoy action set before (for non-empty action sets: a parser built without actions leaves the grammar untouched by design)",
 "C09-m6": "round 3; missed at first (results were compared after converting lists and tuples alike); caught after the comparison kept container types ('the nested list that mirrors the derivation')",
 "C14-m5": "round 3; missed at first (C14 only used LALR tables); caught after the table kind became a generated parser option; C05 reports it as well since C05-m5's strengthening",
 "C14-m6": "round 3; missed at first (layout terminals never carried priorities); caught after generated priorities on the layout terminals (they never compete on the fillers used)",
 "C17-m6": "round 3; missed by C17 at first (non-overlapping lexicon only; C01 and C02 report it); caught by C17 after the sub-check random-L1-overlapping (GLR without lexical disambiguation on overlapping terminals in prefix mode) was added",
 "C19-m5": "round 3; missed at first (a quote of the other kind was never written escaped); caught after 'escape both quote kinds' became a generated way of writing a literal",
 "C11-m6": "round 3; missed at first: out-of-order GLR spans with several recovering heads are exactly known finding D18's class, and random grammars hardly ever keep two heads alive at an error; caught after the deterministic d18-pinned-corpus (grammars with an R/R choice resolved one or two tokens later, sentences with one or two inserted tokens; on the unchanged tree D18 does not show on it, so all 7694 inputs are strict)",
 "C09-m8": "round 4; missed at first (no terminal action ever returned None); caught after terminal actions returning None (parglare.actions.pass_none style) were generated",
 "C12-m8": "round 4; missed at first (pglr compile was rarely followed by a parser with exactly the compiled options, and no grammar of the histories had a shift against an EMPTY reduction); caught after a fourth leaf grammar with that conflict and the composite operation 'compile, then build with the same options' were added",
 "C14-m7": "round 4; missed at first (only the default ws); caught after the ws parameter became a generated value, including sets whose characters mean something inside a regex character class, with the equivalent LAYOUT rule",
 "C14-m8": "round 4; missed by C14 at first (C14 used no dynamic filter; C18 reports it); caught by C14 after the ws-based and the LAYOUT-based parser were given a logging accept-all filter whose call logs must be equal",
 "C15-m7": "round 4; missed at first (no action used context.extra, and the leak is process wide so that a fresh parser in the same process sees it too); caught after the start rule's action counts in context.extra and the oracle passes the documented default extra={} explicitly",
 "C16-m7": "round 4; not a determinism defect (the wrong table is the same in every process): invisible to C16; reported by C05 (table for the other start production built first) and C14 (SLR tables with a LAYOUT rule)",
 "C16-m8": "round 4; missed by C16 at first (C12's round trip reports it); caught after every grammar of a batch went through a file, so that a second construction loads the cached table, and the forests of that second construction were compared too",
 "C18-m7": "round 4; missed at first (no grammar with a LAYOUT rule); caught after an optional ws-equivalent LAYOUT rule was added to the grammars (the call-log clause 'initialised once per parse' was there)",
 "C18-m8": "round 4; missed at first; caught after the clause 'a non-empty reduction the filter accepted is part of the LR result' was added to span-keyed-filters (partially marked grammars were there)",
 "C20-m7": "round 4; missed at first (no inline string literals in multi-file grammars); caught after inline literals were generated, with texts that are names of terminals declared in other files",
 "C20-m8": "round 4; missed at first (no explicit EMPTY alternative in imported files); caught after EMPTY alternatives were generated",
 "C19-m2": "ported by hand onto the repaired keyword code (fix F13): KEYWORD regex run over the lower-cased text but compared with the original text",
}
ALSO = {"C16-m7": ["C05", "C14"], "C16-m8": ["C12"], "C14-m8": ["C18"], "C17-m6": ["C01", "C02"], "C03-m5": ["C01"], "C02-m5": ["C01"], "C02-m6": ["C05"], "C01-m5": ["C02"], "C05-m6": ["C04"], "C14-m5": ["C05"], "C04-m3": ["C05"], "C04-m4": ["C12"], "C16-m3": ["C12"], "C04-m5": ["C05"], "C04-m6": ["C05"], "C20-m6": ["C12"],
        "C12-m5": ["C16"], "C16-m6": ["C12"], "C01-m1": ["C02"], "C02-m1": ["C01"], "C01-m2": ["C02", "C04", "C05"], "C02-m2": ["C01"], "C04-m1": ["C05"], "C04-m2": ["C05"], "C13-m2": ["C09"],
        "C16-m2": ["C12"]}
NOT = {"C16-m2": ["C16"], "C04-m4": ["C04", "C05"], "C17-m3": ["C02", "C03"], "C17-m4": ["C08"],
       "C20-m4": ["C19"], "C20-m6": ["C20"], "C16-m5": ["C17"], "C01-m6": ["C05"], "C19-m6": ["C07"], "C14-m6": ["C08"], "C09-m5": ["C15"], "C16-m7": ["C16"]}
for d in sorted(glob.glob('/verif/seeded/C*-m*')):
    mid = os.path.basename(d)
    prop = mid.split('-')[0]
    notes = open(os.path.join(d, 'notes.txt')).read().strip()
    det = [prop] if mid not in NOT or prop not in NOT[mid] else []
    det += ALSO.get(mid, [])
    meta = {
        "id": mid, "property": prop,
        "origin": "fresh sub-agent given only the property text and its own scratch worktree",
        "what_it_breaks_and_needs": notes,
        "confirmed": {"how": "tools_seed.sh: scratch worktree of /repo HEAD; demo exits 0 on the clean tree and non-zero with patch.diff applied; repository suite (tests/func, pglr deselected) 264 passed with the patch applied",
                      "demo_clean_exit": 0, "demo_mutated_exit": 1, "suite_with_patch": "264 passed"},
        "checks_run": "tools_mut.sh: git -C /repo apply patch.diff; python -m pv.run <property> --tier quick; undo",
        "detected_by_quick_checks": det,
        "not_detected_by": NOT.get(mid, []),
        "history": STRENGTHENED.get(mid, ("round 4; " if int(mid.split("-m")[1]) >= 7 else "round 3; " if int(mid.split("-m")[1]) >= 5 else "round 2; " if int(mid.split("-m")[1]) >= 3 else "") + "caught by the property's quick check as it stood"),
    }
    json.dump(meta, open(os.path.join(d, 'meta.json'), 'w'), indent=1)
print("ok")
