"""Validate MANIFEST.json and evidence/*.json against the schemas in /root/.vp
(dev helper; uses jsonschema from the tooling venv: python3-vt tools_validate.py)."""
import glob, json, sys
import jsonschema
ms = json.load(open('/root/.vp/MANIFEST.schema.json'))
es = json.load(open('/root/.vp/EVIDENCE.schema.json'))
m = json.load(open('MANIFEST.json'))
jsonschema.validate(m, ms)
print("MANIFEST ok, checks:", [c['property_id'] for c in m['checks']])
for f in sorted(glob.glob('evidence/*.json')):
    jsonschema.validate(json.load(open(f)), es)
    print("ok", f)
props = [json.loads(l)['id'] for l in open('properties.jsonl')]
claimed = {c['property_id'] for c in m['checks']}
na = {x['property_id'] for x in m.get('not_applicable', [])}
missing = [p for p in props if p not in claimed and p not in na]
print("unclaimed and not listed as not_applicable:", missing)
