#!/bin/bash
# sweep of every seeded change (or those given as arguments) against a scratch worktree of /repo (never /repo itself):
# each change is applied to the worktree, the quick checks named in its meta.json (detected_by + not_detected_by) run
# with PV_REPO pointing at it and PV_OUT_DIR at a scratch directory, and the change is undone.
wt=/tmp/repo-sweep
out=/tmp/pv-sweep-out
git -C /repo worktree remove --force $wt 2>/dev/null
git -C /repo worktree add -q $wt HEAD || exit 2
mkdir -p $out
ids="$@"
[ -z "$ids" ] && ids=$(ls /verif/seeded)
for id in $ids; do
  d=/verif/seeded/$id
  props=$(python3 -c "import json;m=json.load(open('$d/meta.json'));print(' '.join(dict.fromkeys(m['detected_by_quick_checks']+m.get('not_detected_by',[]))))")
  if ! git -C $wt apply $d/patch.diff 2>/dev/null; then
    if ! git -C $wt apply --3way $d/patch.diff 2>/dev/null; then echo "APPLY-FAILED $id"; git -C $wt reset -q --hard HEAD; continue; fi
    git -C $wt reset -q
  fi
  for p in $props; do
    o=$(cd /verif && PV_NO_SHRINK=1 PV_OUT_DIR=$out PV_REPO=$wt PYTHONPATH=$wt:/verif timeout 1200 /venv/bin/python -m pv.run $p --tier quick 2>&1); rc=$?
    echo "== $id/patch.diff on $p: exit=$rc $(echo "$o" | grep -c '^VIOLATION') violations"
    echo "$o" | grep -E "^  [a-zA-Z0-9-]+: " | head -1 | cut -c1-200
  done
  git -C $wt checkout -- .
  git -C $wt clean -fdq
done
git -C /repo worktree remove --force $wt
rm -rf $out
