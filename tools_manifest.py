"""Regenerates MANIFEST.json from the table below (dev helper; run with any python3)."""
import json

PY = "PYTHONPATH=/repo:/verif /venv/bin/python -m pv.run"

# id -> (technique, level text, level note, design ref)
CHECKS = {
    "C01": (
        "differential PBT: GLRParser vs an independent Earley recogniser over the token DAG; full derivation check of enumerated trees; exhaustive short inputs per generated grammar",
        "Exploration: for every generated productive grammar (incl. cyclic, nullable, hidden-recursive; lexicons with and without overlap; LALR and SLR) every token string up to 4-5 tokens with generated layout is parsed; acceptance must equal membership decided by an independent Earley recogniser, the only exception allowed is parglare.SyntaxError, every packed alternative must be a production application and every enumerated tree a derivation of the input; parses run under a step budget.",
        "Trusted: pv/ref_chart.py, pv/trees.py. Known finding D1 (derivations lost on grammars whose LR automaton has a goto cycle over nullable non-terminals) is excluded by signature for the 'rejects a sentence' direction only. Inputs <= 5 tokens; grammars <= 4 non-terminals; a quarter of the non-overlapping cases carry a LAYOUT rule equivalent to the default ws (two tables from one Grammar object).",
        "DESIGN.md section 6/C01"),
    "C02": (
        "differential PBT: set of trees expanded from the GLR forest vs exhaustive reference derivation enumeration on the token DAG",
        "Exploration: for every generated acyclic grammar and every sentence up to 5-6 tokens the set of trees represented by the forest (own expansion of the packed structure) must contain every derivation enumerated by an independent chart procedure; for very ambiguous sentences counts are compared.",
        "Trusted: pv/ref_chart.py derivation enumerator. Known finding D1 excluded by the validated signature (nullable goto cycle AND missing derivation); such grammars are still generated and counted.",
        "DESIGN.md section 6/C02"),
    "C03": (
        "PBT with independent counters/expansion over the packed forest plus reference derivation counts; generated in-range, boundary and out-of-range indices",
        "Exploration: for every sentence of every generated grammar, len/solutions/ambiguities/iteration/lazy+non-lazy indexing/get_first_tree/to_str and indices >= len are checked against own counters and an own expansion of the packed structure, and against the reference number of derivations; LoopError must imply infinite ambiguity per the reference.",
        "Trusted: pv/trees.py counters, pv/ref_chart.py. Known finding D2 (duplicate packing) relaxes only the distinctness/len==derivations/ambiguities clauses for forests that contain an identical duplicate alternative; D1 relaxes only 'fewer trees than derivations' on its signature.",
        "DESIGN.md section 6/C03"),
    "C04": (
        "differential PBT: LR parser under all 8 option combinations vs Earley recogniser/derivation enumerator; LR-vs-GLR tree comparison on deterministic tables",
        "Exploration: for every generated grammar (random, tiny exhaustive, nullable-chain and refused-merge families, overlapping lexicon) all 8 combinations of prefer_shifts x prefer_shifts_over_empty x {LALR,SLR} that construct are run on every token string up to 3-5 tokens: accepted inputs must be sentences and the built tree a derivation; for deterministic tables (no strategy, single-action cells) every sentence must be accepted, have exactly one reference derivation, and GLR must return exactly that one tree.",
        "Trusted: pv/ref_chart.py. Exactness only asserted on the non-overlapping lexicon. LR parsers that do not terminate on cyclic grammars are counted and skipped (C04 claims nothing about termination). Generator health gate: deterministic-class share of constructed parsers must stay >= 10%. A quarter of the non-overlapping cases carry a LAYOUT rule equivalent to the default ws.",
        "DESIGN.md section 6/C04"),
    "C06": (
        "differential PBT: LR (no strategy) and GLR on generated operator tables vs a precedence-climbing reference; metamorphic PBT: adding priorities to deterministic LALR(1) grammars is neutral",
        "Exploration: generated operator tables (1-6 operators, 1-6 levels with arbitrary integer priorities incl. 0, per-level associativity, shuffled alternatives, per-production or rule-level meta-data) plus an exhaustive two-operator family; every operator sequence with <= 3 operators and generated parenthesised expressions must construct without conflicts under LR with all strategies off and give the precedence-climbing tree; GLR must return exactly that one tree (forest[0] and get_first_tree). Second family: deterministic LALR(1) grammars (random, nullable chains, stratified expression grammar) with generated priorities/associativities added must keep acceptance, trees and error positions.",
        "Trusted: the precedence-climbing reference in pv/props/c06.py. Operators of equal priority share one associativity (precondition of the property).",
        "DESIGN.md section 6/C06"),
    "C18": (
        "PBT with a recording wrapper around generated dynamic filters: call-log invariants, accept-all == no filter, reject-P == forest without P, precedence filter == static priorities",
        "Exploration: operator grammars (optionally with a nullable prefix rule Sign: '~' | EMPTY whose alternatives can be marked) with every/generated subsets of productions and terminals marked dynamic; filters accept-all, reject-all-reductions-of-one-production and precedence-encoding are wrapped in a recorder; for every expression with <= 3 operators (+ generated 4-operator ones), LR and GLR: first call is the all-None initialisation, later calls only for marked terminals/productions with matching sub-results; accept-all equals the parse without filter; reject-P gives exactly the trees not using P (SyntaxError iff none); the precedence filter gives the single precedence-climbing tree; LR sub-results of an operator reduction must hold the operator in the middle and be a run of the input; one-sided marking (only terminals / only productions, no static priorities) must construct and give the left- / right-nested tree with a shift- / reduction-rejecting filter; sub-check span-keyed-filters: arbitrary consistent filters (generated 64-bit mask over action kind, production/terminal and span in tokens) on grammars with nullable operators and prefix/infix terminals - GLR must return exactly the unfiltered trees that contain no rejected decision, an LR result must contain no decision that was rejected and never accepted and every non-empty reduction that was accepted; grammars optionally carry a ws-equivalent LAYOUT rule (the filter is initialised once per parse).",
        "Trusted: precedence-climbing reference; LR grammars are fully marked, one-sidedly marked on a single level, or fully statically prioritised so that Parser() constructs.",
        "DESIGN.md section 6/C18"),
    "C07": (
        "differential PBT: tokens chosen by LR (disambiguation on) and pursued by GLR (off) vs an executable statement of the documented lexical-disambiguation rules, over generated terminal sets and expected-set groupings",
        "Exploration: generated sets of 2-6 terminals (string, regex, custom recognizers with both signatures; priorities; prefer; nofinish; optional KEYWORD; ignore_case) grouped into 1-3 selector states with different expected sets, plus every pair of pool terminals; for 27 probe texts per state LR must pick exactly the token the documented order picks (priority, string/keyword over others, longest, prefer), raise DisambiguationError with exactly the remaining tokens, or SyntaxError at the token position; GLR must pursue exactly the matching expected terminals of the highest matching priority, GLR with lexical_disambiguation=True exactly the disambiguated ones; probe texts also follow the selector after a blank (where keywords can match) and in other case; every parser is also built with a pass-through custom_token_recognition hook (documented as 'no change'), which must not change any outcome.",
        "Trusted: the rule model in pv/props/c07.py (docs/disambiguation.md). Explicit nofinish on a string terminal is modelled as losing the 'most specific' privilege; positions where such a string competes with another string are skipped and counted; explicit finish marks on non-string terminals are not generated.",
        "DESIGN.md section 6/C07"),
    "C08": (
        "PBT evaluating the stated per-node position/losslessness predicates on every node of every LR tree and GLR forest tree under generated layout (ws and LAYOUT-rule comments), plus instrumented actions recording the positions callbacks receive",
        "Exploration: for every sentence (all token strings up to 4-5 tokens, rendered with generated layout before, between and after tokens; single-character, multi-character and overlapping lexicons; ws-based and comment LAYOUT grammars) every node of the LR build_tree result and of up to 40-200 forest trees + get_first_tree is checked: integer in-bounds positions, terminal value = input slice, ordered non-overlapping siblings, children inside parents, layout_content+value concatenation reproduces the input, and the positions seen by actions (on the fly and via call_actions) equal the tree's; for grammars whose every right-hand-side symbol is a named match, the objects built by the default obj action (LR on the fly, call_actions, GLR lazy/non-lazy trees) are walked in parallel with the parse tree: _pg_start_position/_pg_end_position and token values must agree node by node.",
        "Trusted: pv/ref_chart.py for sentence selection. Known finding D17 (GLR packed node keeps the span of its first alternative) relaxes only the three span-relation predicates on GLR trees and only when the disagreeing region consists of layout characters; on the deterministic d17-pinned-corpus (473 grammar/layout combinations) the recorded manifestation is required exactly. LR and GLR placements of empty nodes are not compared with each other.",
        "DESIGN.md section 6/C08"),
    "C11": (
        "PBT over generated corruptions (junk insertion into every short token string, generated character strings) with default and two progress-guaranteeing custom recovery strategies; oracles: deterministic step budget, span discipline, derivation check of the recovered tree against the reference recogniser, per-character coverage",
        "Exploration: for generated deterministic-class grammars (LR), arbitrary generated grammars (GLR), nullable-chain grammars and the prioritised expression grammar, every token string up to 3-4 tokens with one or two junk tokens inserted plus generated strings up to 14 characters is parsed with error_recovery=True, a skip-to-next-line strategy and an inject-one-expected-token-per-position strategy: parse must finish within the step budget with a result + parser.errors or a raised SyntaxError; spans must be in bounds, start<=end, ordered and disjoint; with the default strategy every returned tree (LR tree, first 30 forest trees) must be a derivation whose leaves are input slices in increasing order and, for LR, every non-layout character must lie in exactly one leaf or one span; sentences must give no error and the non-recovering parser's result.",
        "Trusted: pv/ref_chart.py. LR is exercised on tables that are deterministic without strategies and on the statically prioritised expression grammar. Known finding D18 (GLR heads at different positions share one error span) is tolerated only for the ordering/overlap clause in parses where the strategy was observed to be invoked for one error on heads at different positions, and not at all on the deterministic d18-pinned-corpus (7694 corrupted sentences of grammars that keep several heads alive at an error; D18 does not show there on the unchanged tree). Sub-check recovery-vs-plain-differential (overlapping terminals; LAYOUT rules with nested comments and with word-only comments) needs no reference: an input accepted without recovery gives the same result and no error with it, an input rejected without recovery never returns with an empty error list. Known finding D1 (GLR rejects a sentence) is inherited by the recovering GLR parser and tolerated by D1's signature plus 'the same parser without recovery rejects it too'.",
        "DESIGN.md section 6/C11"),
    "C12": (
        "model-based PBT over generated histories on one grammar directory (builds with varying options, edits of root / import / second-level import / error-example file, touches with a logical clock, pglr compile, deletion, truncation to generated byte prefixes and injected crashes during the write of the table cache .pgc and of the compiled error hints .pgec) compared with builds from pristine copies without caches; fault enumeration over byte prefixes of reference caches; save/load round-trip PBT with a lock-step walk of both automata",
        "Exploration: generated histories of 3-12 operations over a root grammar importing a second file that imports a third (3 x 3 x 3 variants incl. conflicts and string-vs-regex lexical ambiguity), optionally with a .pge error-example file (2 variants); after every build the serialised table and the outcomes of 18 probe inputs (results, forests, error positions and SyntaxError.hint) must equal those of the same class/options built from a pristine copy of the current files with no cache - whether a cache is absent, fresh, older than any grammar file, truncated, or left by a crash after k bytes of the write (open() shadowed in parglare.tables.persist and parglare.parser); two root grammars whose file names share a stem (g.pg / g.ext.pg, ...; dialects over the same symbols) in one directory must each build like that file alone; every 13th (thorough: every) byte prefix of two reference .pgc files and every prefix of two .pgec files is enumerated as on-disk state; round trip: load(save(t)) keeps serialised actions/gotos, finish flags, conflicts and dynamic marks, is the same automaton state for state, and a second save is byte-identical.",
        "Trusted: crashes modelled as 'bytes written so far stay on disk'; mtimes set by the harness from a logical clock (never equal, and never forged so that a file edited after a cache was written looks older than it - the precondition of any mtime-keyed cache). Known findings D8 / D20 (table options / parser kind are not part of the .pgc / .pgec key) are tolerated only for builds that load an intact, fresh cache which the history wrote under different options; every other history is strict.",
        "DESIGN.md section 6/C12"),
    "C13": (
        "differential PBT: sugared grammar vs (a) parglare on an own plain-BNF expansion following the documented equivalences and (b) reference derivations of the expansion evaluated by the documented meaning; metamorphic greedy-vs-non-greedy family with recorded behaviour on an exhaustive corpus",
        "Exploration: generated rules combining terminals/rules with ? * + , separators (terminal or rule), nested groups and repeated groups, plus the documentation's examples; on every token string up to 4-5 tokens LR must construct iff the expansion does and return the same results/rejection positions, GLR must give the same result sets, tree counts and helper-name-abstracted trees as the expansion, and the sugared language/results must equal the reference derivations of the expansion evaluated as lists / [] / None with separators dropped and groups as anonymous rules. Greedy family (sequences of 2-3 repetitions with ! marks): no non-sentence of the non-greedy form is accepted, every returned tree is a derivation of it, all-but-last-greedy sequences must not return several trees.",
        "Trusted: expander/evaluator in pv/props/c13.py. Known findings: D15 (greedy implemented as static shift preference: cuts the language / non-maximal single tree) and D16 (helper shared between greedy and non-greedy uses) relax only the greedy completeness/maximality clauses; the exhaustive two-item greedy corpus is pinned to its recorded behaviour so a change of the mechanism is still reported; D1 by its signature. A quarter of the cases decorate the first rule with @pass_single (which must not reach the rules generated for its groups).",
        "DESIGN.md section 6/C13"),
    "C14": (
        "metamorphic PBT (two generated layouts of the same token string must give the same parse / offending-token index) + differential PBT (ws parameter vs equivalent LAYOUT rules)",
        "Exploration: every token string up to 3-4 tokens (sentences, non-sentences, junk) of every generated grammar is rendered with two independently generated layout patterns (whitespace; line and nested block comments under a LAYOUT rule) and parsed by LR and GLR: acceptance, LR result, the set of position-free GLR trees and the index of the offending token must agree; for ws grammars an equivalent LAYOUT rule (4 formulations) must give identical trees, node positions, layout_content and error positions; the table kind (LALR/SLR), priorities on the layout terminals and the ws parameter itself (incl. character sets such as ' -_' or '^ \\t' with the equivalent LAYOUT rule) are generated; a logging accept-all dynamic filter must see the same calls with ws and with the LAYOUT rule.",
        "Trusted: the renderer never changes token boundaries (single-character terminals or forced separators). Messages/tokens_ahead are not compared between ws and LAYOUT parsers.",
        "DESIGN.md section 6/C14"),
    "C15": (
        "model-based PBT over generated operation histories (build Parser/GLRParser with varying tables/recovery/strictness, failing builds, parses that fail, recover, or raise - with a generated exception class - from user actions/recognizers) on one shared Grammar object; every operation is compared with the same operation on freshly built objects",
        "Exploration: generated histories of 3-14 operations over one Grammar (random small grammars and grammars that keep two GLR heads in different states on one frontier, optionally with a comment LAYOUT rule, optionally with an unproductive rule so that every build fails; inputs with generated layout before the first token; a user recognizer that raises both where nothing else matches and where another head has already found its token) and a pool of parser instances; after every step the outcome (build result or exception type; parse result / forest trees and call_actions values / exception type, position and expected symbols / recovered error spans) must equal that of the same operation on a fresh Grammar and parser; the thorough tier additionally replays every operation on fresh objects in a fresh interpreter process (module globals). The start rule's action counts in context.extra (the oracle passes extra={} explicitly).",
        "Trusted: all parsers of a history get the same actions (precondition of the property). LR parses that do not terminate within 1 s are skipped and counted (termination is not this property's subject).",
        "DESIGN.md section 6/C15"),
    "C16": (
        "differential PBT across subprocesses started with different PYTHONHASHSEED values (and a repeated run with the same seed): tables, action order, .pgc bytes, conflict reports, LR results and forests must be identical",
        "Exploration: generated batches of grammars (random small grammars, many terminals whose names differ in one character inside one lookahead set, ambiguous operator grammars, multi-file grammars whose imported files define terminals of the same name) are built in fresh interpreter processes under hash seeds 0,1,2,3 (12 seeds in the thorough tier): sha256 of the serialised table for LR/GLR x LALR/SLR, per-state action order, bytes of the written .pgc, conflict reports as (state, terminal, productions), LR results and the first 25 forest trees in index order (to_str), with consume_input=True and False (several accepted heads merged into one forest), must be equal in every process; a family of heavily ambiguous nullable grammars over one terminal (sub-check hash-seed-nullable-ambiguous) targets the order of the forest; every grammar goes through a file, and a second construction in the same directory (which loads the cached table) must report the same table, conflicts and forests as the first.",
        "Trusted: a finite set of hash seeds. Conflict reports are compared by meaning (state, terminal, productions), not by rendered text (which lists lookahead sets in set order).",
        "DESIGN.md section 6/C16"),
    "C17": (
        "differential PBT: GLR/LR with consume_input=False vs union of reference derivations over all sentence prefixes (Earley prefix ends)",
        "Exploration: every token string up to 4-5 tokens (every sentence followed by every continuation, incl. junk) is parsed with consume_input=False; the set of trees expanded from the GLR forest must equal the union over all sentence prefixes of the reference derivations (each once) and SyntaxError is allowed only when no prefix is a sentence; the root of every tree must end where its own prefix ends (not where the longest one does); the LR result must be a derivation of a prefix that is a sentence; sub-check random-L1-overlapping repeats the GLR comparison (lexical disambiguation off) on overlapping terminals over every string up to 5 characters.",
        "Trusted: pv/ref_chart.py. Known findings: D10 (lexical_disambiguation=True drops STOP; pinned by the suite) tolerated only for prefixes followed by a token; D1/D2 by their signatures, D2 additionally pinned on a deterministic corpus (1 564 grammars; the recorded (trees, distinct trees) of 78 prefix forests is required exactly, every other input of the corpus is strict).",
        "DESIGN.md section 6/C17"),
    "C09": (
        "differential PBT across the evaluation routes (on the fly, build_tree+call_actions, GLR+call_actions lazy/non-lazy/first tree) and against a reference evaluator applied to the derivation the LR parser built; generated action tables, named matches and repetition sugar",
        "Exploration: generated grammars decorated with * + ? (with and without separators), named matches = and ?= at generated positions and an action table (none | one callable | per-alternative list; terminal actions); every accepted token string up to 4-5 tokens is evaluated by all routes with tagging actions that expose argument order, alternative index and bindings; all results must equal the reference evaluation of the built tree; without user actions the nested-list default (single-child unpacking, obj for rules with named matches, documented results of +,*,?) is checked the same way; results are compared with their container types (lists stay lists); for non-empty action sets the Grammar object is optionally used with a decoy action set first; terminal actions may return None.",
        "Trusted: reference evaluator in pv/props/c09.py (docs/actions.md, docs/grammar_language.md). Which derivation a prefer-shifts LR parser commits to is not this property's subject: the reference evaluates the tree the parser built.",
        "DESIGN.md section 6/C09"),
    "C10": (
        "differential PBT: error type/position/line/column/EOF message/expected set of GLR and LR vs Earley prefix analysis; text, multi-character, list-input and overlapping lexicons",
        "Exploration: every non-sentence among all token strings up to 4-5 tokens (with junk characters, the empty input, multi-line and trailing layout, list inputs with custom recognizers) must be rejected with exactly parglare.SyntaxError at the reference position by GLR (LALR and SLR) and by deterministic LR parsers; line/column must agree with the public pos_to_line_col and a constant column base; the EOF wording, rendering without exceptions and the exact GLR expected-terminal set are checked; LR with resolved conflicts may only raise SyntaxError or a DisambiguationError located at the ambiguous tokens.",
        "Trusted: pv/ref_chart.py Earley prefix analysis (exact because all non-terminals are productive). STOP's presence in symbols_expected is not asserted; LR's symbols_expected is not compared. The ws parameter is either the default or ' \\t' (new line not layout); list-input recognizers use both documented call signatures.",
        "DESIGN.md section 6/C10"),
    "C05": (
        "differential PBT against an own canonical-LR(1)/LALR(1) construction; exhaustive tiny-grammar enumeration + Hypothesis random grammars; sys.monitoring line budget for termination",
        "Exploration: every generated productive grammar (exhaustive tiny space, random small/medium, pinned classics) x {LALR,SLR} x {main,LAYOUT start} is built under a reference-derived step budget and the resulting automaton is simulated against an independently constructed canonical LR(1) automaton (no action/goto missing), LALR reductions are checked to lie inside reference LALR(1) lookaheads, and reported conflicts must be reference conflicts; half of the cases with a LAYOUT rule build the table for the other start production first on the same Grammar object (what Parser() does). Holds on everything explored; no absence claim beyond the explored sizes.",
        "Trusted: pv/ref_lr.py (textbook LR(1)/LALR(1)), Hypothesis, the step-budget calibration (budget = 1500 x reference work + 4e5 lines, observed max < 0.1 of budget). Grammars up to 6 non-terminals / 5 terminals; reference capped at 400 LR(1) states.",
        "DESIGN.md section 6/C05"),
    "C19": (
        "differential PBT: inline vs declared string terminals, and both vs a reference scanner (literal matching + whole-word rule for KEYWORD-matched strings + documented disambiguation) over generated texts with punctuation, quotes and escapes",
        "Exploration: generated and enumerated texts (letters, digits, '_', . | + * ( ) [ ] backslash, quotes, new line, tab) as t1,t2,t3 in 'S: t1 t2 | t3 ID' with optional KEYWORD regex (5 choices), 3 identifier regexes, both quote styles, ignore_case; the inline grammar must construct iff the declared one does and both LR parsers must agree on every probe input (concatenations of the texts/identifiers/spaces, glued and case-changed variants); the declared parser must agree with the reference scanner on result values, rejection position and ambiguity.",
        "Trusted: reference scanner in pv/props/c19.py. Known findings by text predicate: D11a (dot), D11b (backslash followed by n/t/quote/backslash: double unescape), D11c (text equals a rule name), D11d (EMPTY/STOP); each relaxes only the clause it concerns and cases are still generated and counted. Literals are written with either quote style and with the other quote kind optionally escaped as well.",
        "DESIGN.md section 6/C19"),
    "C20": (
        "differential PBT: modular grammars written to a temporary directory (generated import graphs: chain, diamond, cycle, arbitrary; aliases; sub-directories; qualified references of any depth; overrides) vs the single-file grammar produced by an own flattener; recorded behaviour on a deterministic override + multi-path corpus",
        "Exploration: generated sets of 2-4 grammar files with rules and declared terminals, every import graph shape, aliases, '../' paths and overrides of rules and terminals in the root or an intermediate file, optionally repetition/optional sugar on qualified references a KEYWORD terminal in the root file (then also glued inputs), named matches per file, inline string literals (incl. texts that are names of terminals of other files) and explicit EMPTY alternatives; the modular grammar (Grammar.from_file) must be accepted iff every reference/override target exists, must have as many non-terminals/terminals as the flattened grammar (each file once), and LR (when both construct) and GLR must give the same results and error positions as the flattened grammar on every token string up to 3-4 tokens.",
        "Trusted: flattener in pv/props/c20.py (docs/grammar_modularization.md; outermost override wins). Known finding D13 (override whose target file is reachable through >= 2 import paths: diamond or cycle) is excluded by that predicate; on a deterministic corpus of 84 such grammars the recorded behaviour is required exactly so that other changes in the class are still reported.",
        "DESIGN.md section 6/C20"),
}

NOT_YET = {}
FUZZED = {"C01", "C02", "C03", "C04", "C05", "C08", "C10", "C11", "C13", "C17"}

def main():
    props = [json.loads(l) for l in open("/verif/properties.jsonl")]
    checks = []
    na = []
    for p in props:
        pid = p["id"]
        if pid in CHECKS:
            tech, text, note, ref = CHECKS[pid]
            if pid in FUZZED:
                tech += "; thorough tier adds coverage-guided fuzzing (atheris/libFuzzer driving the same oracle through hypothesis.fuzz_one_input)"
            checks.append({
                "property_id": pid,
                "quick_cmd": "%s %s --tier quick" % (PY, pid),
                "thorough_cmd": "%s %s --tier thorough" % (PY, pid),
                "evidence_file": "/verif/evidence/%s.json" % pid,
                "replay_cmd_template": "PYTHONPATH=/repo:/verif /venv/bin/python -m pv.replay {path}",
                "engine": "pv",
                "level_claimed": {"category": "exploration", "text": text, "design_ref": ref},
                "level_note": note,
                "technique": tech,
            })
        else:
            na.append({"property_id": pid,
                       "reason": NOT_YET.get(pid, "check not built yet in this revision (work in progress; the technique applies, see DESIGN.md section 6)")})
    m = {
        "version": 1,
        "setup_cmd": "(/venv/bin/python -c 'import hypothesis' 2>/dev/null || /venv/bin/pip install --no-index --find-links /opt/veriftools/wheels --target /verif/.deps hypothesis) && (PYTHONPATH=/verif/.deps /venv/bin/python -c 'import atheris' 2>/dev/null || /venv/bin/pip install -q --no-index --find-links /opt/veriftools/wheels --target /verif/.deps atheris || true)",
        "hooks": {
            "guard": "PARGLARE_VERIF",
            "enable": "no hooks are needed: parglare is pure Python and every check imports it from /repo's working tree (PYTHONPATH=/repo); step budgets use sys.monitoring, fault injection shadows names from the harness",
            "baseline_off_cmd": "cd /repo && /venv/bin/python -m pytest -ra -q -p no:cacheprovider --timeout=900 --continue-on-collection-errors",
            "source_commits": [],
            "add_only": True,
        },
        "engines": [{"name": "pv", "path": "/verif/pv", "serves_properties": sorted(CHECKS),
                     "kind_free_text": "Hypothesis-driven property-based testing harness with independent reference oracles (chart parser, LR(1)/LALR(1) construction, precedence climbing, lexical model), exhaustive small-scope enumeration, known-finding signatures and replay files"}],
        "checks": checks,
        "not_applicable": na,
        "notes": "Exit 0 = held on everything explored (KNOWN-FINDING lines possible), 1 = VIOLATION lines, 2 = harness error. VERIF_SEED selects the Hypothesis seeds. Known findings: /verif/known_findings.json. Repairs of genuine defects are 'fix:' commits in /repo.",
    }
    with open("/verif/MANIFEST.json", "w") as f:
        json.dump(m, f, indent=1)
    print("wrote MANIFEST.json with", len(checks), "checks;", len(na), "not yet claimed")


if __name__ == "__main__":
    main()
