"""Regenerates regress/C02/D1-pins.json: recorded manifestation of known finding D1 on the pinned corpus
(classics + quick tiny enumeration + epsilon family), for grammars in the D1 class only."""
import json, sys
sys.path.insert(0, '/verif')
from pv import core, pgl
from pv.cfg import CFG
from pv.props import c02

class Rec(core.Ctx):
    def __init__(self):
        super().__init__(enabled_findings=["D1"])
        self.events = []
    def known(self, fid, kind, **d):
        self.events.append((d.get('input'), d.get('have'), d.get('want')))

pins = {}; clean = []
c02._PINS = ({}, set())
cases = list(c02.enum_classics('quick')) + list(c02.enum_tiny('quick')) + list(c02.enum_epsilon('quick'))
for case in cases:
    cfg = CFG.from_json(case['g'])
    if cfg.is_cyclic():
        continue
    with core.quiet():
        parser = pgl.GLRParser(pgl.Grammar.from_string(cfg.to_parglare()), tables=pgl.TABLES[case['table']])
    if not c02.nullable_goto_cycle(parser.table, cfg.nullable()):
        continue
    ctx = Rec()
    with core.quiet():
        c02.run_case(case, ctx)
    if not ctx.events:
        clean.append(core.stable_hash([case['g'], case['table'], case['max_len']]))
    for text, have, want in ctx.events:
        pins[core.stable_hash([case['g'], case['table'], text])] = [str(have), str(want)]
json.dump({"comment": "known finding D1 on the pinned corpus: hash(grammar, table, input) -> [derivations found, derivations that exist]; clean = D1-class corpus grammars that lose nothing on the explored inputs",
           "pins": pins, "clean": sorted(clean)}, open('/verif/regress/C02/D1-pins.json', 'w'), indent=0, sort_keys=True)
print(len(pins), "pins", len(clean), "clean D1-class grammars")
