#!/bin/bash
# final sweep: every seeded change against its property's quick check (and the checks listed in meta.json)
for d in /verif/seeded/C*-m*; do
  id=$(basename $d)
  props=$(python3 -c "import json;m=json.load(open('$d/meta.json'));print(' '.join(dict.fromkeys(m['detected_by_quick_checks'])))")
  /verif/tools_mut.sh $d/patch.diff $props 2>&1 | grep -E "^==|APPLY" | sed "s#/verif/seeded/##"
done
