"""Regenerates regress/C11/D18-pins.json: the recorded error spans of known finding D18 (GLR recovery with several
heads: spans out of order) on the deterministic corpus of pv/props/c11.py enum_d18.  Run only when D18's status
changes:  PYTHONHASHSEED=0 /venv/bin/python tools_pins_c11.py"""
import json, sys
sys.path.insert(0, '/verif')
from pv import core
from pv.props import c11
pins = {}
n = 0
for case in c11.enum_d18('quick'):
    ctx = core.Ctx(enabled_findings=["D18", "D1"])
    ctx._recording = {}
    with core.quiet():
        try:
            c11.run_case(case, ctx)
        except core.Violation as v:
            print("violation while recording:", v.kind, str(v.details)[:200])
    pins.update(ctx._recording)
    n += len(case["inputs"])
json.dump({"comment": "hash(grammar, input) -> error spans reported by GLR default recovery where they are out of order and several heads recovered (D18); inputs of the corpus that are absent here are strict",
           "pins": pins}, open('/verif/regress/C11/D18-pins.json', 'w'), indent=0, sort_keys=True)
print(n, "inputs", len(pins), "pins")
