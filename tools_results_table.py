"""Prints the markdown tables of DESIGN.md section 9 from evidence/*.json and seeded/*/meta.json (+ sweep log)."""
import glob
import json
import os
import re
import sys

sweep = {}
for path in sys.argv[1:]:
    for line in open(path):
        m = re.match(r"== (\S+)/patch.diff on (C\d+): exit=(\d) (\d+) violations", line)
        if m:
            sweep.setdefault(m.group(1), {})[m.group(2)] = (int(m.group(3)), int(m.group(4)))

print("| prop. | tier | cases | distinct non-trivial | excluded-known | wall (s) | known findings enabled |")
print("|---|---|---|---|---|---|---|")
for f in sorted(glob.glob("/verif/evidence/C*.json")):
    e = json.load(open(f))
    c = e["coverage"]
    print("| %s | %s | %d | %d | %d | %.0f | %s |" % (
        e["property_id"], e["tier"], c["evaluations"], c["distinct_nontrivial"], sum(c["excluded_known"].values()),
        e["wall_s"], ", ".join(c["known_findings_enabled"]) or "-"))
print()
print("| seeded change | what it is (first line of the sub-agent's note) | caught by (quick tier) | history |")
print("|---|---|---|---|")
for d in sorted(glob.glob("/verif/seeded/C*-m*")):
    mid = os.path.basename(d)
    m = json.load(open(os.path.join(d, "meta.json")))
    note = m["what_it_breaks_and_needs"].strip().split("\n")[0][:160].replace("|", "\\|")
    res = sweep.get(mid, {})
    caught = ", ".join("%s (%d)" % (p, v[1]) for p, v in sorted(res.items()) if v[0] == 1) or ", ".join(m["detected_by_quick_checks"])
    missed = ", ".join(p for p, v in sorted(res.items()) if v[0] != 1)
    print("| %s | %s | %s%s | %s |" % (mid, note, caught, ("; not by " + missed) if missed else "",
                                      m["history"].replace("|", "\\|")[:220]))
