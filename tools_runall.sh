#!/bin/bash
# runs every registered quick (or $1=thorough) check on the current tree; prints one summary line per property
tier=${1:-quick}
for p in C01 C02 C03 C04 C05 C06 C07 C08 C09 C10 C11 C12 C13 C14 C15 C16 C17 C18 C19 C20; do
  s=$(date +%s)
  out=$(cd /verif && PYTHONPATH=/repo:/verif /venv/bin/python -m pv.run $p --tier $tier 2>&1); rc=$?
  echo "$p exit=$rc $(( $(date +%s) - s ))s $(echo "$out" | head -1 | cut -c1-140) known=$(echo "$out" | grep -c '^KNOWN-FINDING') viol=$(echo "$out" | grep -c '^VIOLATION') harness=$(echo "$out" | grep -c '^HARNESS')"
done
