"""Prints the prompt handed to a fresh sub-agent that seeds mutations for one property
(only the property text is given, nothing from /verif)."""
import json, sys
pid = sys.argv[1]
wt = sys.argv[2]
p = [json.loads(l) for l in open('/verif/properties.jsonl') if json.loads(l)['id'] == pid][0]
print(f"""You are helping to evaluate a test harness by seeding realistic bugs into a Python library. Work ONLY inside the git worktree {wt} (a checkout of the parglare parser-generator library). Do NOT read, list or modify anything under /verif or /repo.

How to run things: `cd {wt} && git ls-files -o -i --exclude-standard | grep -E '\\.pge?c$' | xargs -r rm -f; PYTHONPATH={wt} /venv/bin/python -m pytest -q -p no:cacheprovider tests/func --deselect tests/func/pglr/test_pglr.py` runs the existing suite against the worktree's sources (that first command deletes the untracked cached .pgc/.pgec table files - do it before every run, otherwise stale cached tables hide your change; the two pglr tests fail in this sandbox regardless and are deselected). Scripts: `PYTHONPATH={wt} /venv/bin/python script.py`.

The property under study ({pid} - {p['title']}):
{p['statement']}
Scope it quantifies over: {p['quantifier']['text']}
Code it is anchored in: {', '.join(p['anchors']['files'])}

Task: produce TWO different, independent source changes under parglare/ (call them m1 and m2), each of which BREAKS this property while the package still imports and the existing suite above still passes completely. Make them realistic - the kind of slip a maintainer makes in a refactoring or an optimisation (wrong comparison or operator, dropped special case, stale cache, off-by-one, wrong variable, missing reset, wrong order). Strongly prefer changes that need something specific to manifest (an unusual grammar shape or input, a particular multi-step sequence of operations, a crash or fault at a particular point, two cooperating code sites that each look fine alone) over ones that ordinary use exposes at once. The two changes should have different root causes, ideally in different functions.

For each change k in 1,2 create in {wt}/out/ :
 - m<k>.diff : output of `git diff` against HEAD with ONLY that change applied (must apply with `git apply`)
 - m<k>_demo.py : a small standalone script using only parglare's public API that exits 0 on the unmodified tree and fails (assertion / non-zero exit) with the change applied
 - m<k>.txt : 3-6 lines - what behaviour breaks, what is needed for it to manifest, and the suite result you observed with the change applied (pass count)
Verify all of this yourself (demo passes without, fails with; suite passes with). Finish with `git -C {wt} checkout -- .` so that the tree is clean apart from the untracked out/ directory. Keep your final report to a few lines per change.""")
