"""Regenerates regress/C17/D2-prefix-pins.json: (number of trees, number of distinct trees) of prefix forests
(consume_input=False) with double packing (known finding D2) on the deterministic corpus of pv/props/c17.py enum_d2.
Run only when D2's status changes:  PYTHONHASHSEED=0 /venv/bin/python tools_pins_c17.py"""
import json, sys
sys.path.insert(0, '/verif')
from pv import core
from pv.props import c17
pins = {}
n = 0
for case in c17.enum_d2('quick'):
    ctx = core.Ctx(enabled_findings=["D1", "D2", "D10"])
    ctx._recording = {}
    with core.quiet():
        try:
            c17.run_case(case, ctx)
        except core.Violation as v:
            print("violation while recording:", v.kind, str(v.details)[:200])
    pins.update(ctx._recording)
    n += 1
json.dump({"comment": "hash(grammar, table, parser, input) -> [trees in the prefix forest, distinct trees] where a derivation is packed twice (D2); inputs of the corpus that are absent here are strict",
           "pins": pins}, open('/verif/regress/C17/D2-prefix-pins.json', 'w'), indent=0, sort_keys=True)
print(n, "cases", len(pins), "pins")
