"""C18 - the dynamic disambiguation filter sees every marked decision and only
those.  Oracles: call-log invariants, accept-all == no filter, reject-P ==
forest without P, precedence filter == static priorities (R-prec)."""
import itertools

from hypothesis import strategies as st

from .. import glrcore as G, pgl, trees as T
from ..core import SubCheck
from .c06 import OPS, OPNAMES, ref_parse

import parglare
from parglare import SHIFT, REDUCE
from parglare.exceptions import SRConflicts, RRConflicts

RULE = ("case = operator grammar (1-4 binary operators with priority/associativity table) in which a generated subset "
        "of operator productions and operator terminals (and, when the grammar has the nullable prefix rule Sign: '~' | EMPTY, "
        "its alternatives) is marked dynamic; a second family marks only the terminals or only the productions of a "
        "single-level grammar without static priorities; + filter kind {accept-all, reject all "
        "reductions of one marked production, precedence-encoding}; all expressions with <= 3 operators and generated "
        "4-operator expressions (<= 9 tokens) are parsed by LR and GLR with a recording wrapper around the filter; "
        "non-trivial = parse in which the filter rejected >= 1 action or saw >= 3 marked decisions; distinct by "
        "(grammar marks, filter, expression)")
ASSUMPTIONS = [
    "LR grammars are either fully marked (precedence filter) or carry static priorities on every operator production (accept-all / call-log clauses), so that Parser() constructs",
    "reject-P is compared as sets of trees (duplicate packing is C03's subject)",
]


def grammar_text(case, static):
    """static: put {assoc, prio} on operator productions.  case["sign"]: 0 no sign rule, 1 `Sign: '~' | EMPTY`
    unmarked, 2 the EMPTY alternative marked dynamic, 3 both alternatives marked"""
    alts = []
    for i, (oi, prio, assoc) in enumerate(case["ops"]):
        metas = []
        if static:
            metas += [assoc, str(prio)]
        if case["mark_prod"][i]:
            metas.append("dynamic")
        alts.append("E %s E%s" % (OPNAMES[oi], " {%s}" % ", ".join(metas) if metas else ""))
    sign = case.get("sign", 0)
    atom = "Sign atom" if sign else "atom"
    alts.append(atom + " {dynamic}" if case.get("mark_atom") else atom)
    terms = []
    for i, (oi, prio, assoc) in enumerate(case["ops"]):
        terms.append("%s: '%s'%s;" % (OPNAMES[oi], OPS[oi], " {dynamic}" if case["mark_term"][i] else ""))
    sign_rule = ""
    if sign:
        sign_rule = "Sign: tilde%s | EMPTY%s;\n" % (" {dynamic}" if sign == 3 else "", " {dynamic}" if sign >= 2 else "")
        terms.append("tilde: '~';")
    layout = ""
    if case.get("layout_rule"):
        # a LAYOUT rule equivalent to the default ws: the filter belongs to the main parser only
        layout = "LAYOUT: LI | LAYOUT LI | EMPTY;\nLI: WS;\n"
        terms.append("WS: /\\s+/;")
    return "E: %s;\n%s%sterminals\n%s\natom: 'n';\n" % (" | ".join(alts), sign_rule, layout, "\n".join(terms))


def classify(prod):
    """which production of the generated grammar: ('op', name) | ('atom',) | ('sign', 'tilde'|'empty')"""
    rhs = [prod.rhs[i].name for i in range(len(prod.rhs))]     # len() / indexing leave EMPTY out
    if prod.symbol.name == "Sign":
        return ("sign", "tilde" if rhs else "empty")
    if len(rhs) == 3:
        return ("op", rhs[1])
    return ("atom",)


def is_marked(kind, case):
    if kind[0] == "op":
        return kind[1] in {OPNAMES[oi] for i, (oi, _, _) in enumerate(case["ops"]) if case["mark_prod"][i]}
    if kind[0] == "atom":
        return bool(case.get("mark_atom"))
    sign = case.get("sign", 0)
    return sign == 3 or (sign == 2 and kind[1] == "empty")


def leaves(v):
    if isinstance(v, list):
        out = []
        for x in v:
            out += leaves(x)
        return out
    return [] if v is None else [v]


class Recorder:
    def __init__(self, inner):
        self.inner = inner
        self.calls = []
        self.rejected = 0

    def __call__(self, context, from_state, to_state, action, production, subresults):
        if action is None:
            self.calls.append(("init", from_state, to_state, production, subresults))
            self.inner(context, from_state, to_state, action, production, subresults)
            return None
        if action is SHIFT:
            self.calls.append(("shift", to_state.symbol.name, None, None))
        else:
            self.calls.append(("reduce", production, len(subresults) if subresults is not None else None,
                               subresults))
        r = self.inner(context, from_state, to_state, action, production, subresults)
        if not r:
            self.rejected += 1
        return r


def accept_all(context, from_state, to_state, action, production, subresults):
    return True


def make_reject(prod_op_name):
    """prod_op_name None: reject the atom production"""
    def f(context, from_state, to_state, action, production, subresults):
        if action is None:
            return None
        if action is REDUCE:
            k = classify(production)
            if prod_op_name is None and k == ("atom",):
                return False
            if prod_op_name is not None and k == ("op", prod_op_name):
                return False
        return True
    return f


def make_precedence(table):
    """table: {terminal name: (prio, assoc)}"""
    def f(context, from_state, to_state, action, production, subresults):
        if action is None:
            return None
        if action is SHIFT:
            op = context.token.symbol
            acts = from_state.actions[op]
            reds = [a for a in acts if a.action is REDUCE]
            if not reds:
                return True
            p2, a2 = table[op.name]
            p1, a1 = table[reds[0].prod.rhs[1].name]
            return p2 > p1 or (p2 == p1 and a1 == "right")
        op = context.token_ahead.symbol
        if op.name not in table or classify(production)[0] != "op":   # STOP; atom and sign productions
            return True
        p2, a2 = table[op.name]
        p1, a1 = table[production.rhs[1].name]
        return p1 > p2 or (p1 == p2 and a1 == "left")
    return f


def check_log(rec, case, ctx, info, who):
    calls = rec.calls
    if not calls or calls[0][0] != "init":
        ctx.fail("first-filter-call-is-not-the-initialisation-call", parser=who,
                 first=repr(calls[:1])[:200], **info)
    if any(x is not None for x in calls[0][1:]):
        ctx.fail("initialisation-call-has-non-None-arguments", parser=who, **info)
    marked_terms = {OPNAMES[oi] for i, (oi, _, _) in enumerate(case["ops"]) if case["mark_term"][i]}
    for c in calls[1:]:
        if c[0] == "init":
            ctx.fail("initialisation-call-repeated-within-a-parse", parser=who, **info)
        if c[0] == "shift":
            if c[1] not in marked_terms:
                ctx.fail("filter-called-for-unmarked-terminal", parser=who, terminal=c[1], **info)
        else:
            prod = c[1]
            k = classify(prod)
            if not is_marked(k, case):
                ctx.fail("filter-called-for-unmarked-production", parser=who, production=str(prod), **info)
            if c[2] != len(prod.rhs):
                ctx.fail("filter-subresults-do-not-match-production", parser=who, production=str(prod),
                         subresults=c[2], rhs=len(prod.rhs), **info)
            # the sub-results are those of this reduction: an operator production sees its operator in
            # the middle, and (LR, nested-list results) the leaves of its sub-results are a run of the input
            if k[0] == "op" and who == "LR":
                sub = c[3]
                if sub[1] != OPS[OPNAMES.index(k[1])]:
                    ctx.fail("filter-subresults-do-not-match-production", parser=who, production=str(prod),
                             subresults=repr(sub)[:200], **info)
                toks = info["expression"].split()
                lv = leaves(sub)
                if not any(toks[i:i + len(lv)] == lv for i in range(len(toks) - len(lv) + 1)):
                    ctx.fail("filter-subresults-are-not-a-run-of-the-input", parser=who, production=str(prod),
                             subresults=repr(sub)[:200], **info)


def check_complete(rec, case, toks, ctx, info, who, exact):
    """every marked decision of this parse reached the filter: a shift call per
    marked operator token and a reduce call per reduction of a marked
    production (exactly once each for LR, at least once for GLR)"""
    import collections
    marked_terms = {OPNAMES[oi]: OPS[oi] for i, (oi, _, _) in enumerate(case["ops"]) if case["mark_term"][i]}
    marked_ops = {OPNAMES[oi]: OPS[oi] for i, (oi, _, _) in enumerate(case["ops"]) if case["mark_prod"][i]}
    shifts = collections.Counter(c[1] for c in rec.calls[1:] if c[0] == "shift")
    reds = collections.Counter()
    for c in rec.calls[1:]:
        if c[0] == "reduce":
            reds[classify(c[1])] += 1
    for name, ch in marked_terms.items():
        need = toks.count(ch)
        if (shifts[name] != need) if exact else (shifts[name] < need):
            ctx.fail("marked-shift-did-not-reach-the-filter", parser=who, terminal=name, calls=shifts[name],
                     tokens=need, **info)
    atoms = toks.count("n")
    signed = toks.count("~")
    needs = {("op", name): toks.count(ch) for name, ch in marked_ops.items()}   # one reduction per operator token
    needs[("atom",)] = atoms
    needs[("sign", "tilde")] = signed
    needs[("sign", "empty")] = atoms - signed
    for k, need in needs.items():
        if not is_marked(k, case):
            continue
        if (reds[k] != need) if exact else (reds[k] < need):
            ctx.fail("marked-reduction-did-not-reach-the-filter", parser=who, production="/".join(k), calls=reds[k],
                     reductions=need, **info)


def glr_values(parser, forest):
    n, loop = G.forest_len(forest)
    return sorted({repr(parser.call_actions(forest[i])) for i in range(n)})


def contains_op(v, op):
    if isinstance(v, list):
        return (len(v) == 3 and v[1] == op) or any(contains_op(x, op) for x in v)
    return False


def run_case(case, ctx):
    ops = {OPS[oi]: (p, a) for oi, p, a in case["ops"]}
    names = {OPNAMES[oi]: (p, a) for oi, p, a in case["ops"]}
    text_dyn = grammar_text(case, static=False)
    text_static_marked = grammar_text(case, static=True)
    plain_case = dict(case, mark_prod=[False] * len(case["ops"]), mark_term=[False] * len(case["ops"]),
                      mark_atom=False, sign=1 if case.get("sign") else 0)
    text_static_plain = grammar_text(plain_case, static=True)
    text_plain = grammar_text(plain_case, static=False)
    opchars = list(ops)
    exprs = []
    for n in range(0, 4):
        for seq in itertools.product(opchars, repeat=n):
            toks = ["n"]
            for o in seq:
                toks += [o, "n"]
            exprs.append(toks)
    for seq in case["long"]:
        toks = ["n"]
        for o in seq:
            toks += [opchars[o % len(opchars)], "n"]
        exprs.append(toks)
    if case.get("sign"):
        # signed variants: '~' before the atoms selected by a generated bit pattern
        signed = []
        for j, toks in enumerate(exprs):
            bits = case.get("sign_bits", 5) + j
            out, a = [], 0
            for t in toks:
                if t == "n":
                    if (bits >> (a % 8)) & 1:
                        out.append("~")
                    a += 1
                out.append(t)
            if out != toks:
                signed.append(out)
        exprs += signed
    kind = case["filter"]
    fully = all(case["mark_prod"]) and all(case["mark_term"])
    info0 = dict(grammar=text_dyn, filter=kind)
    mk = pgl.Grammar.from_string
    nofilter_lr = pgl.Parser(mk(text_static_plain), prefer_shifts=False, prefer_shifts_over_empty=False)
    nofilter_glr = pgl.GLRParser(mk(text_plain))
    ctx.label("filter:" + kind)
    ctx.label("fully-marked" if fully else "partially-marked")
    # ---- parsers under test ------------------------------------------------
    if kind == "accept-all":
        rec_lr, rec_glr = Recorder(accept_all), Recorder(accept_all)
        lr = pgl.Parser(mk(text_static_marked), prefer_shifts=False, prefer_shifts_over_empty=False,
                        dynamic_filter=rec_lr)
        glr = pgl.GLRParser(mk(text_dyn), dynamic_filter=rec_glr)
    elif kind == "reject":
        marked = [i for i, m in enumerate(case["mark_prod"]) if m]
        targets = [case["ops"][i][0] for i in marked] + ([None] if case.get("mark_atom") else [])
        if not targets:
            ctx.label("discarded:no-marked-production")
            return
        P = targets[case["reject"] % len(targets)]
        rec_glr = Recorder(make_reject(OPNAMES[P] if P is not None else None))
        glr = pgl.GLRParser(mk(text_dyn), dynamic_filter=rec_glr)
        lr = rec_lr = None
    else:  # precedence on a fully marked grammar
        full_case = dict(case, mark_prod=[True] * len(case["ops"]), mark_term=[True] * len(case["ops"]),
                         mark_atom=False)
        case = full_case
        text_full = grammar_text(full_case, static=False)
        info0 = dict(grammar=text_full, filter=kind)
        rec_lr, rec_glr = Recorder(make_precedence(names)), Recorder(make_precedence(names))
        try:
            lr = pgl.Parser(mk(text_full), prefer_shifts=False, prefer_shifts_over_empty=False,
                            dynamic_filter=rec_lr)
        except (SRConflicts, RRConflicts) as e:
            ctx.fail("fully-marked-grammar-does-not-construct-with-filter", error=repr(e)[:200], **info0)
        glr = pgl.GLRParser(mk(text_full), dynamic_filter=rec_glr)
    leaf_value = {False: nofilter_lr.parse("n"), True: nofilter_lr.parse("~ n") if case.get("sign") else None}

    def expected(toks):
        """precedence-climbing tree over the atoms, each atom standing for what the filterless parser
        returns for it alone ('n', or [sign result, 'n'] under the Sign rule)"""
        flat, vals = [], []
        i = 0
        while i < len(toks):
            if toks[i] == "~":
                flat.append("@%d" % len(vals))
                vals.append(leaf_value[True])
                i += 2
            elif toks[i] == "n":
                flat.append("@%d" % len(vals))
                vals.append(leaf_value[False])
                i += 1
            else:
                flat.append(toks[i])
                i += 1

        def subst(v):
            if isinstance(v, list):
                return [subst(x) for x in v]
            return vals[int(v[1:])] if v.startswith("@") else v
        return subst(ref_parse(flat, ops))
    for toks in exprs:
        text = " ".join(toks)
        info = dict(expression=text, **info0)
        # ---------------- LR ----------------
        if lr is not None:
            rec_lr.calls = []
            rec_lr.rejected = 0
            try:
                got = lr.parse(text)
            except Exception as e:
                ctx.fail("lr-with-filter-raises", error=repr(e)[:300], **info)
            check_log(rec_lr, case, ctx, info, "LR")
            if kind == "accept-all":
                check_complete(rec_lr, case, toks, ctx, info, "LR", exact=True)
            want = nofilter_lr.parse(text) if kind == "accept-all" else expected(toks)
            if got != want:
                ctx.fail("lr-result-with-filter-differs", got=repr(got), expected=repr(want), **info)
            if rec_lr.rejected >= 1 or len(rec_lr.calls) >= 4:
                ctx.nontrivial([case["ops"], case["mark_prod"], case["mark_term"], kind, text, "LR"],
                               sample={"grammar": info0["grammar"], "filter": kind, "expression": text,
                                       "filter_calls": len(rec_lr.calls), "rejected": rec_lr.rejected})
        # ---------------- GLR ----------------
        rec_glr.calls = []
        rec_glr.rejected = 0
        out = G.run_parse(glr, text)
        if out.kind == "other":
            ctx.fail("glr-with-filter-raises", error=repr(out.exc)[:300], **info)
        check_log(rec_glr, case, ctx, info, "GLR")
        base = G.run_parse(nofilter_glr, text)
        base_vals = glr_values(nofilter_glr, base.value)
        if kind == "accept-all":
            if out.kind != "ok" or glr_values(glr, out.value) != base_vals:
                ctx.fail("glr-accept-all-differs-from-no-filter", outcome=out.kind, **info)
            check_complete(rec_glr, case, toks, ctx, info, "GLR", exact=False)
        elif kind == "reject":
            import ast
            want_vals = [] if P is None else \
                sorted(v for v in base_vals if not contains_op(ast.literal_eval(v), OPS[P]))
            if not want_vals:
                if out.kind != "syntax":
                    ctx.fail("glr-reject-filter-should-leave-no-tree", outcome=out.kind, **info)
            else:
                if out.kind != "ok":
                    ctx.fail("glr-reject-filter-loses-all-trees", expected=len(want_vals), **info)
                gv = glr_values(glr, out.value)
                if gv != want_vals:
                    ctx.fail("glr-reject-filter-tree-set-differs", got=gv[:4], expected=want_vals[:4],
                             got_n=len(gv), expected_n=len(want_vals), **info)
        else:
            want = expected(toks)
            if out.kind != "ok":
                ctx.fail("glr-precedence-filter-rejects", error=repr(out.exc)[:200], **info)
            n, loop = G.forest_len(out.value)
            gv = glr_values(glr, out.value)
            if n != 1 or gv != [repr(want)]:
                ctx.fail("glr-precedence-filter-differs-from-static-priorities", len=n, got=gv[:3],
                         expected=repr(want), **info)
        if rec_glr.rejected >= 1 or len(rec_glr.calls) >= 4:
            ctx.nontrivial([case["ops"], case["mark_prod"], case["mark_term"], kind, text, "GLR"],
                           sample={"grammar": info0["grammar"], "filter": kind, "expression": text,
                                   "filter_calls": len(rec_glr.calls), "rejected": rec_glr.rejected})
        ctx.label("expressions")


def run_partial(case, ctx):
    """one-sided marking (documented use: mark only what the filter has to see).  All operators share one
    level, no static priorities, strategies off, so every operator pair is an unresolved S/R conflict:
      side 'terms': only the operator terminals are marked; the filter rejects every shift that competes
                    with a reduction -> everything groups to the left;
      side 'prods': only the operator productions are marked; the filter rejects every reduction while an
                    operator is ahead -> everything groups to the right.
    The conflicts are dynamic, so Parser must construct, the filter must see exactly the marked side, and
    LR and GLR must return the left- / right-nested tree."""
    side = case["side"]
    k = len(case["ops"])
    assoc = "left" if side == "terms" else "right"
    gcase = {"ops": [[oi, 1, assoc] for oi in case["ops"]], "mark_prod": [side == "prods"] * k,
             "mark_term": [side == "terms"] * k, "mark_atom": False, "sign": case.get("sign", 0)}
    text = grammar_text(gcase, static=False)
    ops = {OPS[oi]: (1, assoc) for oi in case["ops"]}
    names = {OPNAMES[oi] for oi in case["ops"]}
    info0 = dict(grammar=text, filter="one-sided:" + side)

    def filt(context, from_state, to_state, action, production, subresults):
        if action is None:
            return None
        if action is SHIFT:
            return not any(a.action is REDUCE for a in from_state.actions[context.token.symbol])
        if classify(production)[0] != "op":
            return True
        return context.token_ahead.symbol.name not in names
    rec_lr, rec_glr = Recorder(filt), Recorder(filt)
    mk = pgl.Grammar.from_string
    try:
        lr = pgl.Parser(mk(text), prefer_shifts=False, prefer_shifts_over_empty=False, dynamic_filter=rec_lr)
    except (SRConflicts, RRConflicts) as e:
        ctx.fail("one-sided-marking-does-not-construct-with-filter", error=repr(e)[:200], **info0)
    glr = pgl.GLRParser(mk(text), dynamic_filter=rec_glr)
    plain = pgl.Parser(mk(grammar_text(dict(gcase, mark_prod=[False] * k, mark_term=[False] * k,
                                            sign=1 if gcase["sign"] else 0), static=True)),
                       prefer_shifts=False, prefer_shifts_over_empty=False)
    opchars = list(ops)
    exprs = []
    for n in range(0, 4):
        for seq in itertools.product(opchars, repeat=n):
            toks = ["n"]
            for o in seq:
                toks += [o, "n"]
            exprs.append(toks)
    for seq in case["long"]:
        toks = ["n"]
        for o in seq:
            toks += [opchars[o % len(opchars)], "n"]
        exprs.append(toks)
    if gcase["sign"]:
        exprs += [["~"] + t for t in exprs[:8]] + [t[:-1] + ["~", "n"] for t in exprs[:8]]
    for toks in exprs:
        text_in = " ".join(toks)
        info = dict(expression=text_in, **info0)
        want = plain.parse(text_in)     # static {left|right, 1} on every operator: the documented equivalent
        for who, parser, rec in (("LR", lr, rec_lr), ("GLR", glr, rec_glr)):
            rec.calls = []
            rec.rejected = 0
            if who == "LR":
                try:
                    got = [repr(parser.parse(text_in))]
                except Exception as e:
                    ctx.fail("lr-with-filter-raises", error=repr(e)[:300], **info)
            else:
                out = G.run_parse(parser, text_in)
                if out.kind != "ok":
                    ctx.fail("glr-with-filter-raises" if out.kind == "other" else "glr-precedence-filter-rejects",
                             error=repr(out.exc)[:300], **info)
                got = glr_values(parser, out.value)
            check_log(rec, gcase, ctx, info, who)
            if got != [repr(want)]:
                ctx.fail("one-sided-filter-differs-from-static-associativity", parser=who, got=got[:3],
                         expected=repr(want), **info)
            if rec.rejected >= 1:
                ctx.nontrivial([case["ops"], side, gcase["sign"], text_in, who],
                               sample={"grammar": text, "filter": "one-sided:" + side, "expression": text_in,
                                       "filter_calls": len(rec.calls), "rejected": rec.rejected})
        ctx.label("expressions")
    ctx.label("one-sided:" + side)


def enum_partial(tier):
    def it():
        for side in ("terms", "prods"):
            for k in (1, 2, 3):
                for first in range(0, 6, 2 if tier == "quick" else 1):
                    for sign in (0, 2, 3):
                        yield {"ops": [(first + j) % 6 for j in range(k)], "side": side, "sign": sign,
                               "long": [[0, 1, 2, 0], [2, 1, 0, 1, 2]]}
    return it()


# ------------------------------------------------ arbitrary consistent filters keyed by span
SPAN_TEMPLATES = [
    # prefix sign that may be empty
    ("E: E plus E{0} | E mul E{1} | Sign atom{2};\nSign: tilde{3} | EMPTY{4};\n"
     "terminals\nplus: '+'{5};\nmul: '*'{6};\ntilde: '~'{7};\natom: 'n'{8};\n"),
    # operator that may be empty (implicit multiplication): states with three actions on one lookahead
    ("E: E Op E{0} | tilde E{1} | atom{2};\nOp: plus{3} | mul{4} | EMPTY{5};\n"
     "terminals\nplus: '+'{6};\nmul: '*'{7};\ntilde: '~'{8};\natom: 'n'{9};\n"),
    # two nullable helpers next to each other
    ("E: E Op E{0} | Sign atom{1};\nOp: plus{2} | EMPTY{3};\nSign: tilde{4} | EMPTY{5};\n"
     "terminals\nplus: '+'{6};\ntilde: '~'{7};\natom: 'n'{8};\n"),
    # a terminal that is both an infix alternative of the nullable operator and a prefix operator:
    # SHIFT, a non-empty reduction and an EMPTY reduction meet on one lookahead
    ("E: E Op E{0} | minus E{1} | atom{2};\nOp: minus{3} | plus{4} | EMPTY{5};\n"
     "terminals\nplus: '+'{6};\nminus: '-'{7};\natom: 'n'{8};\n"),
]
SPAN_TOKENS = [["n", "+", "*", "~"], ["n", "+", "*", "~"], ["n", "+", "~"], ["n", "+", "-"]]


def span_grammar(case, marked=True):
    tpl = SPAN_TEMPLATES[case["template"] % len(SPAN_TEMPLATES)]
    n = tpl.count("{")
    marks = [(" {dynamic}" if marked and (case["marks"] >> i) & 1 else "") for i in range(n)]
    text = tpl.format(*marks)
    if case.get("layout_rule"):
        text = text.replace("terminals\n", "LAYOUT: LI | LAYOUT LI | EMPTY;\nLI: WS;\nterminals\nWS: /\\s+/;\n", 1)
    return text


def prod_name(p):
    return "%s: %s" % (p.symbol.name, " ".join(p.rhs[i].name for i in range(len(p.rhs))) or "EMPTY")


def decide(mask, kind, name, i, j):
    """the generated filter: a fixed function of (action kind, production / terminal, span in tokens)"""
    h = (sum(ord(c) * (k + 3) for k, c in enumerate(name)) * 7 + i * 13 + j * 5 + (1 if kind == "shift" else 0)) % 64
    return bool((mask >> h) & 1)


def decisions_of_tree(t):
    """(kind, name, i, j) of every node of a canonical tree, spans counted in tokens"""
    out = []

    def walk(x, i):
        if T.is_leaf(x):
            out.append(("shift", x[0], i, i + 1))
            return i + 1
        j = i
        for k in x[2]:
            j = walk(k, j)
        out.append(("reduce", "%s: %s" % (x[0], " ".join(x[1]) or "EMPTY"), i, j))
        return j
    walk(t, 0)
    return out


def run_span(case, ctx):
    text_m = span_grammar(case)
    text_p = span_grammar(case, marked=False)
    mask = case["mask"]
    info0 = dict(grammar=text_m, filter="span-keyed mask %#x" % mask)
    mk = pgl.Grammar.from_string
    g_marked = mk(text_m)
    marked_prods = {prod_name(p) for p in g_marked.productions if p.dynamic}
    marked_terms = {t.name for t in g_marked.terminals.values() if t.dynamic}
    state = {"text": ""}

    def ntok(pos):
        return len(state["text"][:pos].split())

    def make(log, conflicts_only=False):
        """conflicts_only (LR): decide by the mask only where the table offers a choice on this lookahead,
        accept otherwise - an LR parse survives only if exactly one action is left everywhere"""
        def f(context, from_state, to_state, action, production, subresults):
            if action is None:
                log.append(("init", from_state, to_state, production, subresults))
                return None
            if action is SHIFT:
                name = to_state.symbol.name
                i = ntok(context.position if not hasattr(context, "possibilities") else context.start_position)
                d = decide(mask, "shift", name, i, i + 1)
                if conflicts_only and len(from_state.actions[to_state.symbol]) < 2:
                    d = True
                log.append(("shift", name, i, i + 1, d))
                return d
            name = prod_name(production)
            log.append(("reduce", name, len(subresults) if subresults is not None else None, len(production.rhs)))
            if hasattr(context, "possibilities"):       # GLR: the packed node under construction
                i, j = ntok(context.start_position), ntok(context.end_position)
            else:                                       # LR: the stack head; the span is that of the sub-results
                j = ntok(context.position)
                i = j - sum(len(leaves_of_lr(r)) for r in subresults)
            d = decide(mask, "reduce", name, i, j)
            if conflicts_only and len(from_state.actions[context.token_ahead.symbol]) < 2:
                d = True
            log.append(("decided", name, i, j, d))
            return d
        return f

    def leaves_of_lr(r):
        # LR sub-results here are parse tree nodes (build_tree=True)
        out, stack = [], [r]
        while stack:
            x = stack.pop()
            if x.is_term():
                out.append(x)
            else:
                stack.extend(x.children)
        return out
    log_glr, log_lr = [], []
    plain = pgl.GLRParser(mk(text_p))
    glr = pgl.GLRParser(mk(text_m), dynamic_filter=make(log_glr))
    try:
        lr = pgl.Parser(mk(text_m), prefer_shifts=False, prefer_shifts_over_empty=False, build_tree=True,
                        dynamic_filter=make(log_lr, conflicts_only=True))
    except (SRConflicts, RRConflicts):
        lr = None
        ctx.label("lr-not-constructible (unmarked conflicts)")
    words = []
    for n in range(1, case["max_len"] + 1):
        words.extend(itertools.product(SPAN_TOKENS[case["template"] % len(SPAN_TEMPLATES)], repeat=n))
    for w in words:
        text = " ".join(w)
        state["text"] = text
        base = G.run_parse(plain, text)
        if base.kind != "ok":
            continue
        try:
            all_trees = set(T.expand(base.value.result, limit=3000))
        except (T.TooManyTrees, T.Cyclic):
            continue
        info = dict(expression=text, **info0)

        def allowed(t):
            for kind, name, i, j in decisions_of_tree(t):
                if (name in marked_terms if kind == "shift" else name in marked_prods) and \
                        not decide(mask, kind, name, i, j):
                    return False
            return True
        want = {t for t in all_trees if allowed(t)}
        # ---------------- GLR: exactly the trees without a rejected decision ----------------
        del log_glr[:]
        out = G.run_parse(glr, text)
        if out.kind == "other":
            ctx.fail("glr-with-filter-raises", error=repr(out.exc)[:300], **info)
        check_span_log(log_glr, marked_prods, marked_terms, ctx, info, "GLR")
        if not want:
            if out.kind != "syntax":
                ctx.fail("glr-reject-filter-should-leave-no-tree", outcome=out.kind, **info)
        else:
            if out.kind != "ok":
                ctx.fail("glr-reject-filter-loses-all-trees", expected=len(want), **info)
            got = set(T.expand(out.value.result, limit=6000))
            if got - want:
                bad = sorted(got - want, key=repr)[0]
                why = [d for d in decisions_of_tree(bad)
                       if (d[1] in marked_terms if d[0] == "shift" else d[1] in marked_prods)
                       and not decide(mask, *d)] if bad in all_trees else "not a tree of the unfiltered forest"
                ctx.fail("rejected-action-was-taken", parser="GLR", tree=repr(bad)[:300], rejected=repr(why)[:200],
                         **info)
            if want - got:
                ctx.fail("accepted-actions-were-not-taken", parser="GLR", missing=repr(sorted(want - got, key=repr)[0])[:300],
                         have=len(got), want=len(want), **info)
        # ---------------- LR: whatever it returns contains no rejected decision --------------
        if lr is not None:
            del log_lr[:]
            lo = G.run_parse_soft(lr, text, 1.0)
            # what LR raises when the filter leaves two actions (DynamicDisambiguationConflict) or none
            # (today an IndexError) is not part of the property: only results are judged
            if lo.kind == "other":
                ctx.label("lr-raises:" + type(lo.exc).__name__)
            if lo.kind != "timeout":
                check_span_log(log_lr, marked_prods, marked_terms, ctx, info, "LR")
            if lo.kind == "ok":
                t = T.canon(lo.value)
                if t not in all_trees:
                    ctx.fail("lr-tree-is-not-a-derivation", tree=repr(t)[:300], **info)
                # no decision the filter rejected during this parse is part of the result
                # (the same token / span can be offered again from another state - a '-' first as infix, then
                # as prefix operator - and be accepted there: what counts is that it was never accepted)
                keys = [(("shift" if c[0] == "shift" else "reduce", c[1], c[2], c[3]), c[4])
                        for c in log_lr if c[0] in ("shift", "decided")]
                rejected = {k for k, d in keys if not d} - {k for k, d in keys if d}
                taken = rejected & set(decisions_of_tree(t))
                if taken:
                    ctx.fail("rejected-action-was-taken", parser="LR", tree=repr(t)[:300],
                             rejected=repr(sorted(taken))[:200], **info)
                # ... and a non-empty reduction the filter accepted was performed (LR never backtracks, so a
                # performed reduction is a node of the result; an accepted EMPTY reduction may lose against a
                # shift, which LR prefers)
                accepted = {k for k, d in keys if d and k[0] == "reduce" and not k[1].endswith(": EMPTY")}
                dropped = accepted - set(decisions_of_tree(t))
                if dropped:
                    ctx.fail("accepted-action-was-not-taken", parser="LR", tree=repr(t)[:300],
                             accepted=repr(sorted(dropped))[:200], **info)
                ctx.label("lr-trees-checked")
                if rejected:
                    ctx.label("lr-trees-checked-after-a-rejection")
        ctx.label("expressions")
        if len(all_trees) > len(want):
            ctx.nontrivial([case["template"], case["marks"], mask, text],
                           sample={"grammar": text_m, "expression": text, "unfiltered_trees": len(all_trees),
                                   "allowed_trees": len(want)})


def check_span_log(log, marked_prods, marked_terms, ctx, info, who):
    if not log or log[0][0] != "init" or any(x is not None for x in log[0][1:]):
        ctx.fail("first-filter-call-is-not-the-initialisation-call", parser=who, first=repr(log[:1])[:200], **info)
    for c in log[1:]:
        if c[0] == "init":
            ctx.fail("initialisation-call-repeated-within-a-parse", parser=who, **info)
        if c[0] == "shift" and c[1] not in marked_terms:
            ctx.fail("filter-called-for-unmarked-terminal", parser=who, terminal=c[1], **info)
        if c[0] == "reduce":
            if c[1] not in marked_prods:
                ctx.fail("filter-called-for-unmarked-production", parser=who, production=c[1], **info)
            if c[2] != c[3]:
                ctx.fail("filter-subresults-do-not-match-production", parser=who, production=c[1], subresults=c[2],
                         rhs=c[3], **info)


def strat_span(tier):
    @st.composite
    def c(draw):
        full = draw(st.integers(0, 2)) == 0
        return {"template": draw(st.integers(0, len(SPAN_TEMPLATES) - 1)),
                "marks": 0x3ff if full else draw(st.integers(1, 0x3ff)),
                # mostly-accepting masks: union of two draws
                "mask": draw(st.integers(0, 2 ** 64 - 1)) | draw(st.integers(0, 2 ** 64 - 1)),
                "layout_rule": draw(st.integers(0, 3)) == 0,
                "max_len": draw(st.sampled_from([4, 4, 5]))}
    return c()



@st.composite
def cases(draw):
    k = draw(st.integers(1, 4))
    op_idx = draw(st.permutations(range(6)))[:k]
    nlev = max(1, k - draw(st.integers(0, 2)))
    prios = draw(st.lists(st.integers(0, 25), min_size=nlev, max_size=nlev, unique=True))
    assocs = [draw(st.sampled_from(["left", "right"])) for _ in range(nlev)]
    level_of = [i if i < nlev else draw(st.integers(0, nlev - 1)) for i in range(k)]
    ops = [[op_idx[i], prios[level_of[i]], assocs[level_of[i]]] for i in range(k)]
    return {"ops": ops,
            "mark_prod": draw(st.lists(st.booleans(), min_size=k, max_size=k)),
            "mark_term": draw(st.lists(st.booleans(), min_size=k, max_size=k)),
            "mark_atom": draw(st.integers(0, 2)) == 0,
            "sign": draw(st.sampled_from([0, 0, 1, 2, 2, 3])), "sign_bits": draw(st.integers(1, 255)),
            "layout_rule": draw(st.integers(0, 3)) == 0,
            "filter": draw(st.sampled_from(["accept-all", "reject", "precedence"])),
            "reject": draw(st.integers(0, 5)),
            "long": draw(st.lists(st.lists(st.integers(0, 5), min_size=4, max_size=4), max_size=3))}


def strat(tier):
    return cases()


def enum_small(tier):
    def it():
        for a0, a1 in itertools.product(["left", "right"], repeat=2):
            for p0, p1 in ((1, 2), (2, 1), (3, 3)):
                if p0 == p1 and a0 != a1:
                    continue
                for mp in itertools.product([False, True], repeat=2):
                    for mt in itertools.product([False, True], repeat=2):
                        for f in ("accept-all", "reject", "precedence"):
                            for ma in (False, True):
                                yield {"ops": [[0, p0, a0], [2, p1, a1]], "mark_prod": list(mp), "mark_atom": ma,
                                       "mark_term": list(mt), "filter": f, "reject": 1 if ma else 0,
                                       "long": [[0, 1, 0, 1]],
                                       "sign": (0, 2, 3, 1)[(p0 + (a0 == "left") + 2 * ma + mp[0]) % 4]}
    return it()


SUBCHECKS = [
    SubCheck("two-operator-exhaustive", run_case, enumerate=enum_small),
    SubCheck("random", run_case, strategy=strat, examples={"quick": 640, "thorough": 8000}),
    SubCheck("one-sided-marking", run_partial, enumerate=enum_partial),
    SubCheck("span-keyed-filters", run_span, strategy=strat_span, examples={"quick": 1600, "thorough": 16000}),
]


def subcheck(name):
    return {s.name: s for s in SUBCHECKS}[name]
