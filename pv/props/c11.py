"""C11 - error recovery terminates, reports disjoint spans and parses the rest.
Oracles: step budget, span discipline, derivation checks of the recovered
tree against the reference recogniser, coverage of every character."""
import itertools

from hypothesis import strategies as st

from .. import gen, glrcore as G, pgl, trees as T
from ..cfg import CFG
from ..core import SubCheck
from .c02 import nullable_goto_cycle
from ..ref_chart import Chart, Lexicon

import parglare
from parglare import Token
from parglare.exceptions import SRConflicts, RRConflicts

RULE = ("case = (grammar: generated deterministic-class grammar for LR / any generated grammar for GLR / prioritised "
        "expression grammar; recovery strategy: default | skip-to-next-line | inject-one-expected-token-per-position; "
        "layout fillers) ; inputs = every token string up to 4 tokens with up to two junk tokens inserted, plus "
        "generated character strings up to 14 characters over alphabet, junk and layout; LR and GLR; non-trivial = >= 1 "
        "recovered error together with a returned result (strong: >= 2 errors); distinct by (grammar, strategy, input)")
ASSUMPTIONS = [
    "non-overlapping lexicon (recovery calls the tokeniser, which may raise DisambiguationError on overlapping terminals - outside the statement)",
    "LR is exercised on grammars whose table is deterministic without strategies and on the statically prioritised expression grammar (an LR parser with strategy-resolved conflicts can reduce forever on hidden left recursion, with or without recovery)",
    "for the custom strategies only termination and span discipline are asserted",
]

EXPR = ("E: E '+' E {left, 1} | E '*' E {left, 2} | '(' E ')' | num;\nterminals\nnum: /\\d+/;\n")
EXPR_CFG = CFG(["E"], [("+", "str", "+"), ("*", "str", "*"), ("(", "str", "("), (")", "str", ")"), ("num", "re", r"\d+")],
               [("E", ["E", "+", "E"]), ("E", ["E", "*", "E"]), ("E", ["(", "E", ")"]), ("E", ["num"])])
JUNK = ["#", "@", "&&"]


def skip_line(context, error, default):
    text = context.input_str
    pos = text.find("\n", context.position)
    if pos < 0:
        return False
    context.position = pos + 1
    context.token_ahead = None
    return True


def make_inject():
    injected = set()

    def reset():
        injected.clear()

    def inject(context, error, default):
        # one injection per position, then the default strategy: always progresses
        if context.position not in injected:
            injected.add(context.position)
            expected = sorted((s for s in context.state.actions if s.name != "STOP"), key=lambda s: s.name)
            if expected:
                s = expected[0]
                context.token_ahead = Token(s, "<%s>" % s.name, context.position, length=0)
                return True
        return default(context)
    inject.reset = reset
    return inject


def leaves_of(node):
    out = []
    stack = [node]
    while stack:
        x = stack.pop()
        if x.is_term():
            out.append(x)
        else:
            stack.extend(reversed(list(x.children)))
    return out


def check_errors(ctx, errors, text, who, info):
    prev_end = None
    spans = []
    for e in errors:
        if type(e) is not parglare.SyntaxError:
            ctx.fail("recorded-error-is-not-a-SyntaxError", parser=who, error=repr(e)[:100], **info)
        s, en = e.location.start_position, e.location.end_position
        if not (isinstance(s, int) and isinstance(en, int) and 0 <= s <= en <= len(text)):
            ctx.fail("error-span-out-of-bounds", parser=who, span=[s, en], length=len(text), **info)
        if prev_end is not None and s < prev_end:
            ctx.fail("error-spans-overlap-or-out-of-order", parser=who, span=[s, en], previous_end=prev_end, **info)
        prev_end = en
        spans.append((s, en))
        try:
            str(e)
        except Exception as ex:
            ctx.fail("error-rendering-raises", parser=who, error=repr(ex), **info)
    return spans


def check_tree(ctx, tree, cfg, lex, text, spans, who, info, lr):
    leaves = leaves_of(tree)
    pos = 0
    vals = []
    covered = [0] * len(text)
    for lf in leaves:
        s, e = lf.start_position, lf.end_position
        if not (isinstance(s, int) and isinstance(e, int) and pos <= s <= e <= len(text)):
            ctx.fail("leaf-out-of-order-or-out-of-bounds", parser=who, leaf=lf.symbol.name, span=[s, e], **info)
        if lf.value != text[s:e]:
            ctx.fail("leaf-is-not-an-input-slice", parser=who, leaf=lf.symbol.name, value=lf.value,
                     slice=text[s:e], **info)
        pos = e
        vals.append(lf.value)
        for i in range(s, e):
            covered[i] += 1
    # local validity + sentence of the grammar
    try:
        c = T.canon(tree)
    except Exception as ex:
        ctx.fail("result-is-not-a-tree", parser=who, error=repr(ex), **info)
    chart = Chart(cfg, lex, " ".join(vals))
    remap = []
    p = 0
    for v in vals:
        remap.append((p, p + len(v)))
        p += len(v) + 1
    # rewrite leaf positions to those of the joined text and check the derivation
    it = iter(remap)

    def rew(t):
        if T.is_leaf(t):
            a, b = next(it)
            return (t[0], a, b)
        return (t[0], t[1], tuple(rew(k) for k in t[2]))
    why = T.check_derivation(rew(c), cfg, chart)
    if why:
        ctx.fail("recovered-tree-is-not-a-derivation-of-its-leaves", parser=who, why=why, leaves=vals, **info)
    if lr:
        for s, e in spans:
            for i in range(s, e):
                covered[i] += 1
        for i, ch in enumerate(text):
            if ch in " \t\r\n":
                continue
            if covered[i] != 1:
                ctx.fail("character-not-in-exactly-one-leaf-or-error-span", parser=who, position=i, char=ch,
                         times=covered[i], error_spans=spans, leaves=[(l.start_position, l.end_position) for l in leaves],
                         **info)


def run_case(case, ctx):
    if case["g"] == "expr":
        cfg, text_g = EXPR_CFG, EXPR
        toks = ["1", "+", "*", "(", ")", "23"]
    else:
        cfg = CFG.from_json(case["g"])
        text_g = cfg.to_parglare()
        toks = [v for _, _, v in cfg.terms]
    lex = Lexicon(cfg.terms)
    strat_name = case["strategy"]
    mk = pgl.Grammar.from_string
    info0 = dict(grammar=text_g, strategy=strat_name)

    strategies = []
    seen_heads = {}      # id(error) -> set of head positions recovery was invoked for
    order = []           # the errors in the order they were handed to the strategy

    def strategy():
        inner = {"default": None, "skip-line": skip_line, "inject": make_inject()}[strat_name]
        strategies.append(inner)

        def observed(context, error, default):
            seen_heads.setdefault(id(error), set()).add(context.position)
            if not order or order[-1] is not error:
                order.append(error)
            if inner is None:
                return default(context)       # exactly what error_recovery=True does
            return inner(context, error, default)
        return observed
    parsers = []
    try:
        parsers.append(("GLR", pgl.GLRParser(mk(text_g), error_recovery=strategy()), pgl.GLRParser(mk(text_g))))
    except Exception as e:
        ctx.fail("glr-construction-raises", error=repr(e)[:200], **info0)
    try:
        if case["g"] == "expr":
            plain = pgl.Parser(mk(text_g), build_tree=True)
            det = True
        else:
            plain = pgl.Parser(mk(text_g), build_tree=True, prefer_shifts=False, prefer_shifts_over_empty=False)
            det = pgl.deterministic_table(plain.table)
        if det:
            kw = {} if case["g"] == "expr" else dict(prefer_shifts=False, prefer_shifts_over_empty=False)
            parsers.append(("LR", pgl.Parser(mk(text_g), build_tree=True, error_recovery=strategy(), **kw), plain))
            ctx.label("lr-parsers")
    except (SRConflicts, RRConflicts):
        pass
    # ---- inputs ----------------------------------------------------------
    words = []
    for n in range(0, case["max_len"] + 1):
        words.extend(list(w) for w in itertools.product(toks, repeat=n))
    base = list(words)
    if len(base) > 40:
        base = base[::max(1, len(base) // 40)]
    inputs = []
    for k, w in enumerate(base):
        inputs.append(G.render(w, case["fill"], k))
        j = JUNK[k % len(JUNK)]
        for i in range(0, len(w) + 1, 1 if len(w) < 3 else 2):
            inputs.append(G.render(w[:i] + [j] + w[i:], case["fill"], k + i))
        if len(w) >= 2:
            inputs.append(G.render([j] + w[:1] + [j, j] + w[1:], case["fill"], k))
            inputs.append(G.render(w[:1] + [j] + w[1:] + [j], case["fill"], k))
    inputs += case["strings"]
    if case.get("inputs") is not None:
        inputs = list(case["inputs"])
    ctx.label("strategy:" + strat_name)
    d1 = None
    for text in inputs:
        member = Chart(cfg, lex, text).accepts()
        info = dict(input=text, **info0)
        for who, parser, plain in parsers:
            for s_ in strategies:
                if hasattr(s_, "reset"):
                    s_.reset()      # the inject strategy keeps per-parse state
            seen_heads.clear()
            del order[:]
            out = G.run_parse(parser, text, G.parse_budget(text, cfg) * 2)
            if out.kind == "budget":
                ctx.fail("recovery-does-not-terminate", parser=who, steps=out.steps, **info)
            if member and who == "GLR" and out.kind != "other" and (out.kind == "syntax" or parser.errors):
                # Finding D1: on grammars with a goto cycle over nullable non-terminals GLR itself rejects
                # some sentences; the recovering parser inherits that (it gives up or "recovers" from an
                # error that is none).  Signature as in C01/C02 plus: the same parser without recovery
                # rejects the sentence too.
                if d1 is None:
                    d1 = nullable_goto_cycle(parser.table, cfg.nullable())
                if d1 and G.run_parse(plain, text).kind == "syntax":
                    ctx.known("D1", "recovering-parser-inherits-rejected-sentence", parser=who, **info)
                    continue
            if out.kind == "other":
                ctx.fail("recovery-raises-other-exception", parser=who, error=repr(out.exc)[:300], **info)
            if out.kind == "syntax":
                # the last error created; nothing else to check (errors list is dropped)
                e = out.exc
                if not (0 <= e.location.start_position <= len(text)):
                    ctx.fail("error-span-out-of-bounds", parser=who, **info)
                if member:
                    ctx.fail("recovering-parser-rejects-a-sentence", parser=who, **info)
                # "or raises the last SyntaxError": the error recovery was attempted for last
                if order and e is not order[-1]:
                    ctx.fail("raised-error-is-not-the-last-error", parser=who,
                             raised_at=e.location.start_position,
                             errors_at=[x.location.start_position for x in order], **info)
                ctx.label("recovery-gave-up")
                continue
            errors = list(parser.errors)
            # Finding D18: GLR heads at different positions recover from one
            # error; the single span cannot describe that and later errors
            # of a lagging head may start before it ends
            multi = who == "GLR" and any(len(v) > 1 for v in seen_heads.values())
            try:
                spans = check_errors(ctx, errors, text, who, info)
            except Exception as v:
                from ..core import Violation
                if isinstance(v, Violation) and multi and v.kind in ("error-spans-overlap-or-out-of-order",):
                    if case.get("pin"):
                        # pinned corpus of the D18 class: the recorded spans are required exactly, so another
                        # defect that shows as 'GLR spans out of order with several recovering heads' is
                        # still reported (inputs of the corpus without a record are strict)
                        from ..core import stable_hash
                        key = stable_hash([case["g"], text])
                        now = [[e.location.start_position, e.location.end_position] for e in errors]
                        rec = ctx.__dict__.get("_recording")
                        if rec is not None:
                            rec[key] = now
                        else:
                            want = d18_pins().get(key)
                            if want != now:
                                ctx.fail("behaviour-differs-from-recorded-finding", parser=who, recorded=want,
                                         now=now, **info)
                            ctx.label("recorded D18 manifestation confirmed")
                        continue
                    ctx.known("D18", v.kind, **v.details)
                    continue
                raise
            if member:
                if errors:
                    ctx.fail("error-recorded-for-a-sentence", parser=who, spans=spans, **info)
                base_out = G.run_parse(plain, text)
                if who == "LR":
                    if base_out.kind != "ok" or T.canon(base_out.value) != T.canon(out.value):
                        ctx.fail("recovering-parser-differs-on-a-sentence", parser=who, **info)
                else:
                    n1, l1 = G.forest_len(out.value)
                    n2, l2 = G.forest_len(base_out.value) if base_out.kind == "ok" else (None, None)
                    if base_out.kind != "ok" or (n1, l1) != (n2, l2) or \
                            (not l1 and [out.value[i].to_str() for i in range(min(n1, 20))] !=
                             [base_out.value[i].to_str() for i in range(min(n2, 20))]):
                        ctx.fail("recovering-parser-differs-on-a-sentence", parser=who, **info)
                ctx.label("sentences")
                continue
            if not errors:
                ctx.fail("non-sentence-accepted-without-recorded-error", parser=who, **info)
            if strat_name == "default":
                if who == "LR":
                    check_tree(ctx, out.value, cfg, lex, text, spans, who, info, lr=True)
                else:
                    n, loop = G.forest_len(out.value)
                    if not loop:
                        for i in range(min(n, 30)):
                            check_tree(ctx, out.value[i], cfg, lex, text, spans, who + " forest[%d]" % i, info, lr=False)
            ctx.label("recovered-parses")
            if len(errors) >= 2:
                ctx.label("recovered-with->=2-errors")
            ctx.nontrivial([case["g"], strat_name, text, who],
                           sample={"grammar": text_g, "strategy": strat_name, "input": text, "parser": who,
                                   "error_spans": spans})


_D18 = None


def d18_pins():
    global _D18
    if _D18 is None:
        import json
        import os
        from .. import VERIF_DIR
        path = os.path.join(VERIF_DIR, "regress", "C11", "D18-pins.json")
        _D18 = json.load(open(path))["pins"] if os.path.exists(path) else {}
    return _D18


# grammars on which several GLR heads are alive at an error (R/R choice resolved one or two tokens later,
# lookaheads merged by LALR), so that one head may recover and another may not
MULTI_HEAD = [
    {"nts": ["S", "Item", "P", "Q", "R", "A"], "terms": [[t, "str", t] for t in "abcdek"],
     "prods": [["S", ["S", "Item"]], ["S", ["Item"]], ["Item", ["P", "A", "c"]], ["Item", ["Q", "A", "d"]],
               ["Item", ["R", "e", "k"]], ["P", ["a"]], ["Q", ["b"]], ["R", ["a"]], ["A", ["e"]]]},
    {"nts": ["S", "Item", "P", "R", "A"], "terms": [[t, "str", t] for t in "acdek"],
     "prods": [["S", ["S", "Item"]], ["S", ["Item"]], ["Item", ["P", "A", "c"]], ["Item", ["R", "A", "d"]],
               ["Item", ["R", "e", "k"]], ["P", ["a"]], ["R", ["a"]], ["A", ["e"]]]},
    {"nts": ["S", "Item", "P", "Q", "A", "B"], "terms": [[t, "str", t] for t in "abcde"],
     "prods": [["S", ["Item", "S"]], ["S", ["Item"]], ["Item", ["P", "A", "c"]], ["Item", ["Q", "B", "d"]],
               ["P", ["a"]], ["Q", ["a"]], ["A", ["e"]], ["B", ["e"]], ["Item", ["b", "A", "d"]]]},
]


def enum_d18(tier):
    def it():
        for g in MULTI_HEAD:
            cfg = CFG.from_json(g)
            items = [[x for x in rhs] for lhs, rhs in cfg.prods if lhs == "Item"]
            # expand the items to token strings (every non-terminal here derives one token)
            one = {lhs: rhs[0] for lhs, rhs in cfg.prods if len(rhs) == 1 and lhs not in ("S",)}
            sents = [[one.get(x, x) for x in it_] for it_ in items]
            bases = [a for a in sents] + [a + b for a in sents for b in sents]
            tn = [t[0] for t in g["terms"]]
            ins1 = [["!"], ["!", tn[-2]], [tn[-2]], [tn[-1]], ["!", tn[-3]]]
            ins2 = [["!"], [tn[-2]]]
            inputs = []
            for b in bases:
                for i in range(len(b) + 1):
                    for x in ins1:
                        inputs.append(" ".join(b[:i] + x + b[i:]))
                        for j in range(i, len(b) + 1):
                            for y in ins2:
                                inputs.append(" ".join(b[:i] + x + b[i:j] + y + b[j:]))
            inputs = sorted(set(inputs))
            for k in range(0, len(inputs), 150):
                yield {"g": g, "strategy": "default", "fill": [" "], "strings": [], "max_len": 0,
                       "inputs": inputs[k:k + 150], "pin": True}
    return it()


# ------------------------------------------------ recovery against the same parser without recovery
def run_differential(case, ctx):
    """two clauses that need no reference: (a) an input the parser accepts without recovery gives the same
    result and no recorded error with recovery; (b) an input it rejects without recovery never comes back
    as a result with an empty error list.  Run where the reference of run_case does not reach: overlapping
    terminals (GLR without lexical disambiguation) and a LAYOUT rule with nested comments."""
    from .c08 import LAYOUT_RULES, LAYOUT_TERMS
    cfg = CFG.from_json(case["g"])
    if case["family"] == "comments":
        text_g = cfg.to_parglare(extra_rules=LAYOUT_RULES.strip(), extra_terminals=LAYOUT_TERMS.strip())
    elif case["family"] == "word-comments":
        # comments whose content is restricted (words only): the LAYOUT sub-parser itself can meet an error
        text_g = cfg.to_parglare(
            extra_rules="LAYOUT: LI | LAYOUT LI | EMPTY;\nLI: WS | Comment;\nComment: '(*' CItems '*)';\n"
                        "CItems: CItems CItem | EMPTY;\nCItem: word | WS;",
            extra_terminals="WS: /\\s+/;\nword: /[m-z]+/;")
    else:
        text_g = cfg.to_parglare()
    info0 = dict(grammar=text_g)
    mk = pgl.Grammar.from_string
    pairs = [("GLR", pgl.GLRParser(mk(text_g)), pgl.GLRParser(mk(text_g), error_recovery=True))]
    if case["family"] in ("comments", "word-comments"):
        try:
            pairs.append(("LR", pgl.Parser(mk(text_g), build_tree=True),
                          pgl.Parser(mk(text_g), build_tree=True, error_recovery=True)))
        except (SRConflicts, RRConflicts):
            pass
    dead = set()
    for text in case["inputs"]:
        info = dict(input=text, **info0)
        for who, plain, rec in pairs:
            if who in dead:
                continue
            a = G.run_parse_soft(plain, text, 1.0)
            b = G.run_parse_soft(rec, text, 2.0)
            if "timeout" in (a.kind, b.kind):
                dead.add(who)
                ctx.label("slow-or-nonterminating (skipped; termination is run_case's subject)")
                continue
            if b.kind == "other" and a.kind != "ok":
                # (default recovery on lexically ambiguous terminals can end in DisambiguationError today;
                # what a rejected input raises here is left to run_case's domain)
                ctx.label("rejected input: recovery raises " + type(b.exc).__name__)
                continue
            if a.kind == "ok":
                if b.kind != "ok" or rec.errors:
                    ctx.fail("error-recorded-for-a-sentence" if b.kind == "ok" else "recovering-parser-rejects-a-sentence",
                             parser=who, **info)
                if who == "LR":
                    same = T.canon(a.value) == T.canon(b.value)
                else:
                    n1, l1 = G.forest_len(a.value)
                    n2, l2 = G.forest_len(b.value)
                    same = (n1, l1) == (n2, l2) and (l1 or [a.value[i].to_str() for i in range(min(n1, 20))] ==
                                                     [b.value[i].to_str() for i in range(min(n2, 20))])
                if not same:
                    ctx.fail("recovering-parser-differs-on-a-sentence", parser=who, **info)
                ctx.label("accepted-inputs-compared")
                ctx.nontrivial([case["g"], case["family"], text, who], sample={"grammar": text_g, "input": text})
            elif a.kind == "syntax" and b.kind == "ok":
                if not rec.errors:
                    ctx.fail("non-sentence-accepted-without-recorded-error", parser=who, **info)
                ctx.label("rejected-inputs-recovered")


def strat_diff(tier):
    @st.composite
    def c(draw):
        family = draw(st.sampled_from(["overlap", "comments", "word-comments"]))
        if family == "overlap":
            g = draw(gen.cfgs(max_nts=3, max_alts=3, max_rhs=3, min_terms=2, max_terms=4, terms_pool=gen.L1_TERMS))
            inputs = list(G.char_inputs("ab ", 4))
        else:
            g = draw(gen.cfgs(max_nts=3, max_alts=3, max_rhs=3))
            tt = [t[2] for t in g["terms"]]
            if family == "comments":
                piece = st.sampled_from(tt + tt + [" ", "/* c */", "// c\n", "/* a + ", " */", "/* x /* y */ z */", "#", "/*"])
            else:
                piece = st.sampled_from(tt + tt + [" ", "(* note *)", "(* some + note *)", "(* x", "*)", "(* *)",
                                                   "(* no # te *)", "+"])
            inputs = ["".join(draw(st.lists(piece, min_size=0, max_size=6))) for _ in range(24)]
            inputs += [" ".join(w) for n in range(0, 3) for w in itertools.product(tt, repeat=n)]
        return {"g": g, "family": family, "inputs": inputs}
    return c()


FILL = st.lists(st.sampled_from(["", " ", "\n", " \n ", "  "]), min_size=3, max_size=5)


def _case(gstrat):
    @st.composite
    def c(draw):
        g = draw(gstrat)
        if g == "expr":
            alpha = list("12+*() #@&\n")
            max_len = 3
        else:
            alpha = [t[2] for t in g["terms"]] + list(" #@\n")
            max_len = 4 if len(g["terms"]) <= 2 else 3
        strings = ["".join(draw(st.lists(st.sampled_from(alpha), min_size=1, max_size=14))) for _ in range(8)]
        return {"g": g, "strategy": draw(st.sampled_from(["default", "default", "skip-line", "inject"])),
                "fill": draw(FILL), "strings": strings, "max_len": max_len}
    return c()


def strat_cfg(tier):
    return _case(gen.cfgs(max_nts=3, max_alts=3, max_rhs=3))


def strat_chain(tier):
    return _case(gen.nullable_chain_cfgs())


def strat_expr(tier):
    return _case(st.just("expr"))


def enum_repo(tier):
    """the repository's own recovery scenarios"""
    def it():
        for s in ("default", "skip-line", "inject"):
            yield {"g": "expr", "strategy": s, "fill": [" "], "max_len": 2,
                   "strings": ["1 + 2 + * 3 & 89 - 5", "1 + 2 + * 3 - 5", "1 + 2 + * 3 + & -", "1 + 5 8 - 2",
                               "1 + \n* 2\n& 3 +", "(1 + ) * 2 &"]}
    return it()


SUBCHECKS = [
    SubCheck("repository-scenarios", run_case, enumerate=enum_repo, shards={"quick": 3, "thorough": 3}),
    SubCheck("expression-grammar", run_case, strategy=strat_expr, examples={"quick": 160, "thorough": 2400}),
    SubCheck("random-grammars", run_case, strategy=strat_cfg, examples={"quick": 960, "thorough": 9600}),
    SubCheck("nullable-chain-family", run_case, strategy=strat_chain, examples={"quick": 320, "thorough": 3200}),
    SubCheck("d18-pinned-corpus", run_case, enumerate=enum_d18),
    SubCheck("recovery-vs-plain-differential", run_differential, strategy=strat_diff,
             examples={"quick": 480, "thorough": 4800}),
]


# thorough tier: coverage-guided campaigns (atheris) on the same run_case, see pv/fuzz.py
FUZZ = [("random-grammars", 8000)]

def subcheck(name):
    return {s.name: s for s in SUBCHECKS}[name]
