"""C01 - GLR accepts exactly the grammar's language and returns only valid
derivations.  Oracle: Earley recogniser over the token DAG (pv.ref_chart)."""
from hypothesis import strategies as st

from .. import gen, glrcore as G, pgl, trees as T
from ..cfg import CFG
from ..core import SubCheck
from ..ref_chart import Chart, Lexicon
from .c02 import nullable_goto_cycle

import parglare

RULE = ("case = (productive grammar incl. cyclic, table LALR|SLR, lexicon L0 non-overlapping | L1 overlapping, "
        "layout fillers); per case every token string up to 4-5 tokens (+ strings with a junk character) is "
        "rendered with the generated layout and parsed with GLRParser; non-trivial = (grammar, input) pair where "
        "the input is accepted with >= 2 tokens or rejected after a non-empty viable prefix, and the grammar is "
        "nullable, recursive or cyclic; distinct by (grammar, table, input text)")
ASSUMPTIONS = [
    "reference Earley recogniser over the token DAG (pv/ref_chart.py) is correct",
    "terminals of the generated lexicons never match layout characters; equal terminal priorities",
]


def run_case(case, ctx):
    cfg = CFG.from_json(case["g"])
    lexkind = case["lex"]
    lex = Lexicon(cfg.terms)
    prios = case.get("prios") or []
    tmeta = {n: str(prios[i % len(prios)]) for i, n in enumerate(cfg.term_names)
             if prios and prios[i % len(prios)] != 10} if lexkind == "L0" else None
    text_g = cfg.to_parglare(term_meta=tmeta, extra_rules="LAYOUT: LI | LAYOUT LI | EMPTY;\nLI: WS;",
                             extra_terminals="WS: /\\s+/;") if case.get("layout_rule") and case.get("lex") == "L0" \
        else cfg.to_parglare(term_meta=tmeta)
    try:
        grammar = pgl.Grammar.from_string(text_g)
        parser = pgl.GLRParser(grammar, tables=pgl.TABLES[case["table"]])
    except Exception as e:
        ctx.fail("glr-construction-raises", grammar=text_g, table=case["table"], error=repr(e))
    cyclic = cfg.is_cyclic()
    d1 = nullable_goto_cycle(parser.table, cfg.nullable())
    if d1:
        ctx.label("grammar:nullable-goto-cycle (D1 class)")
    glabels = cfg.labels()
    interesting_g = bool(glabels)
    if lexkind == "L0":
        inputs = [G.render(w, case["fill"], k)
                  for k, w in enumerate(G.l0_inputs(cfg, case["max_len"]))]
    else:
        inputs = list(G.char_inputs(case.get("alphabet", "ab"), case["max_len"]))
        inputs += [s[:i] + " " + s[i:] for s in inputs if 2 <= len(s) <= 4 for i in (1, len(s) - 1)]
    ctx.label("lex:" + lexkind)
    ctx.label("table:" + case["table"])
    for l in glabels:
        ctx.label("grammar:" + l)
    for text in inputs:
        chart = Chart(cfg, lex, text)
        expect = chart.accepts()
        d14 = lexkind == "L1" and G.reconverging(chart)
        B = G.parse_budget(text, cfg)
        out = G.run_parse(parser, text, B)
        ctx.label("parses")
        info = dict(grammar=text_g, table=case["table"], input=text)
        if out.kind == "budget":
            ctx.fail("parse-does-not-terminate", steps=out.steps, budget=B, **info)
        if out.kind == "other":
            if d14:
                ctx.known("D14", "glr-raises-other-exception", error=repr(out.exc), **info)
                continue
            ctx.fail("glr-raises-other-exception", error=repr(out.exc), expected_member=expect, **info)
        ctx.metric_max("max_parse_steps_over_budget", out.steps / B)
        if (out.kind == "ok") != expect:
            kind = "accepts-non-sentence" if out.kind == "ok" else "rejects-sentence"
            if kind == "rejects-sentence" and d1:
                # every derivation lost: extreme form of finding D1 (see C02)
                ctx.known("D1", kind, **info)
                continue
            if d14:
                ctx.known("D14", kind, **info)
                continue
            ctx.fail(kind, **info)
        ntok = None
        if out.kind == "syntax":
            ctx.label("rejected")
            _, _, depth, _ = chart.error_analysis() if lexkind == "L0" else (0, 0, 0, 0)
            if depth >= 1 and interesting_g:
                ctx.nontrivial([case["g"], case["table"], text],
                               sample={"grammar": text_g, "table": case["table"], "input": text,
                                       "verdict": "rejected after %d viable tokens" % depth})
            continue
        ctx.label("accepted")
        forest = out.value
        why = G.local_validity(forest, cfg, text)
        if why:
            if d14:
                ctx.known("D14", "invalid-packed-alternative", why=why, **info)
                continue
            ctx.fail("invalid-packed-alternative", why=why, **info)
        n, loop = G.forest_len(forest)
        if loop:
            ctx.label("cyclic-forest")
            if not cyclic:
                if d14:
                    ctx.known("D14", "loop-error-on-acyclic-grammar", **info)
                    continue
                # C03 states this clause; here it only stops tree enumeration
            continue
        idxs = list(range(min(n, 48)))
        if n > 48:
            step = max(1, n // 16)
            idxs += list(range(48, n, step))[:16] + [n - 1]
        bad = None
        for i in idxs:
            try:
                t = T.canon(forest[i])
            except Exception as e:
                bad = "forest[%d] raises %r" % (i, e)
                break
            why = T.check_derivation(t, cfg, chart)
            if why:
                bad = "forest[%d]: %s" % (i, why)
                break
            ntok = len(T.canon_leaves(t))
        if bad:
            if d14:
                ctx.known("D14", "tree-is-not-a-derivation", why=bad, **info)
                continue
            ctx.fail("tree-is-not-a-derivation", why=bad, **info)
        if n > 1:
            ctx.label("ambiguous-input")
        if ntok is not None and ntok >= 2 and interesting_g:
            ctx.nontrivial([case["g"], case["table"], text],
                           sample={"grammar": text_g, "table": case["table"], "input": text,
                                   "verdict": "accepted, %d trees, all checked are derivations" % n})


# ----------------------------------------------------------------- strategies
FILL = st.lists(st.sampled_from(G.FILLERS), min_size=3, max_size=7)


def _case(gstrat, lex):
    @st.composite
    def c(draw):
        g = draw(gstrat)
        nterm = len(g["terms"])
        if lex == "L0":
            max_len = 5 if nterm <= 2 else 4
        else:
            max_len = 5
        return {"g": g, "table": draw(st.sampled_from(["LALR", "SLR"])), "lex": lex,
                "layout_rule": lex == "L0" and draw(st.integers(0, 3)) == 0,
                # terminal priorities are irrelevant without lexical overlap
                "prios": draw(st.lists(st.sampled_from([10, 10, 10, 5, 15]), min_size=1, max_size=3)),
                "fill": draw(FILL), "max_len": max_len}
    return c()


def strat_l0(tier):
    return _case(gen.cfgs(max_nts=3, max_alts=3, max_rhs=3), "L0")


def strat_l0_big(tier):
    return _case(gen.cfgs(max_nts=4, max_alts=3, max_rhs=4, max_terms=3), "L0")


def strat_chain(tier):
    return _case(gen.nullable_chain_cfgs(), "L0")


def strat_l1x(tier):
    @st.composite
    def c(draw):
        g = draw(gen.cfgs(max_nts=3, max_alts=3, max_rhs=3, min_terms=3, max_terms=5, terms_pool=gen.L1X_TERMS))
        return {"g": g, "table": draw(st.sampled_from(["LALR", "SLR"])), "lex": "L1", "alphabet": "abc",
                "fill": [""], "max_len": 4}
    return c()


def strat_l1(tier):
    return _case(gen.cfgs(max_nts=3, max_alts=3, max_rhs=3, min_terms=2, max_terms=4,
                          terms_pool=gen.L1_TERMS), "L1")


def enum_classics(tier):
    def it():
        for name, g in gen.CLASSICS.items():
            for table in ("LALR", "SLR"):
                yield {"g": g, "table": table, "lex": "L0", "fill": ["", " ", "\n"],
                       "max_len": 5 if len(g["terms"]) <= 2 else 4}
    return it()


def enum_tiny(tier):
    stride = 10 if tier == "quick" else 1

    def it():
        for i, g in enumerate(gen.tiny_grammars(1 if tier == "quick" else 2)):
            if i % stride:
                continue
            yield {"g": g, "table": "LALR" if (i // stride) % 2 else "SLR", "lex": "L0",
                   "fill": ["", " "], "max_len": 5}
    return it()


SUBCHECKS = [
    SubCheck("classics", run_case, enumerate=enum_classics, setup=G.setup_parse_budget),
    SubCheck("tiny-exhaustive", run_case, enumerate=enum_tiny, setup=G.setup_parse_budget),
    SubCheck("random-L0", run_case, strategy=strat_l0, setup=G.setup_parse_budget,
             examples={"quick": 3200, "thorough": 30000}),
    SubCheck("random-L0-larger", run_case, strategy=strat_l0_big, setup=G.setup_parse_budget,
             examples={"quick": 800, "thorough": 8000}),
    SubCheck("nullable-chain-family", run_case, strategy=strat_chain, setup=G.setup_parse_budget,
             examples={"quick": 640, "thorough": 6400}),
    SubCheck("random-L1-crossing-overlap", run_case, strategy=strat_l1x, setup=G.setup_parse_budget,
             examples={"quick": 1600, "thorough": 16000}),
    SubCheck("random-L1-overlapping", run_case, strategy=strat_l1, setup=G.setup_parse_budget,
             examples={"quick": 960, "thorough": 10000}),
]


# coverage-guided campaigns of the thorough tier (pv/fuzz.py): (sub-check, libFuzzer runs per shard)
FUZZ = [("random-L0", 40000), ("random-L1-overlapping", 20000)]


def subcheck(name):
    return {s.name: s for s in SUBCHECKS}[name]
