"""C14 - layout is invisible: changing layout between tokens never changes the
parse; a LAYOUT rule equivalent to ws behaves identically.  Metamorphic +
differential oracles."""
import itertools
import re

from hypothesis import strategies as st

from .. import gen, glrcore as G, pgl, trees as T
from ..cfg import CFG
from ..core import SubCheck
from .c08 import (CM_FILL, LAYOUT_RULES, LAYOUT_TERMS, L2_TEXT, WS_FILL)

import parglare
from parglare.exceptions import SRConflicts, RRConflicts

RULE = ("case = (productive grammar, lexicon L0 | L2 multi-character with forced separators, layout kind ws | comment "
        "LAYOUT rule, two independently generated layout filler patterns, an equivalent-LAYOUT variant); every token "
        "string up to 4-5 tokens (sentences and non-sentences) is rendered with both patterns and parsed by LR (where "
        "it constructs) and GLR; second clause: ws parser vs equivalent LAYOUT-rule parser on the same text; "
        "non-trivial = the two layouts differ at >= 2 boundaries one of them leading or trailing; distinct by "
        "(grammar, layout kind, token string, fillers)")
ASSUMPTIONS = [
    "fillers never change token boundaries by construction (single-character terminals, or a non-empty filler forced between two alphanumeric tokens)",
    "tokens_ahead / messages are not compared between ws and LAYOUT parsers (the LAYOUT grammar has extra terminals)",
]

EQUIV_LAYOUTS = [
    ("LAYOUT: WS | EMPTY;", r"WS: /[ \t\r\n]+/;"),
    ("LAYOUT: LI | LAYOUT LI | EMPTY;\nLI: WS;", r"WS: /[ \t\r\n]+/;"),
    ("LAYOUT: LI | LAYOUT LI | EMPTY;\nLI: WS;", r"WS: /[ \t\r\n]/;"),
    ("LAYOUT: LI | LI LAYOUT | EMPTY;\nLI: WS;", r"WS: /[ \t\r\n]/;"),
    ("LAYOUT: LAYOUT WS | EMPTY;", r"WS: /[ \t\r\n]/;"),
    ("LAYOUT: WS LAYOUT | EMPTY;", r"WS: /[ \t\r\n]+/;"),
    ("LAYOUT: WS*;", r"WS: /[ \t\r\n]/;"),
    ("LAYOUT: LI+ | EMPTY;\nLI: WS | WS WS;", r"WS: /[ \t\r\n]/;"),
]


# values of the ws parameter: the default, and sets with characters that mean something inside a regex
# character class (ws is a set of characters, not a pattern)
WS_SETS = [None, " -_", "^ \t", " \t]", "\\ -"]


def render_with_starts(tokens, fill, k, l2):
    n = len(fill)
    out = fill[k % n]
    starts = []
    nonempty = [out != ""]
    for i, t in enumerate(tokens):
        starts.append(len(out))
        out += t
        f = fill[(i + 1 + k) % n]
        if l2 and f == "" and i + 1 < len(tokens) and t[-1].isalnum() and tokens[i + 1][0].isalnum():
            f = " "
        nonempty.append(f != "")
        out += f
    return out, starts, nonempty


def strip_positions(t, text):
    if T.is_leaf(t):
        return (t[0], text[t[1]:t[2]])
    return (t[0], t[1], tuple(strip_positions(c, text) for c in t[2]))


def outcome(parser, text, kind, starts, cfg, ctx, info):
    """uniform, layout independent outcome of one parse"""
    if kind == "lr":
        out = G.run_parse_soft(parser, text, 0.5)
        if out.kind == "timeout":
            return ("timeout",)
    else:
        out = G.run_parse(parser, text)
    if out.kind == "other":
        ctx.fail("raises-other-exception", parser=kind, error=repr(out.exc), **info)
    if out.kind == "syntax":
        pos = out.exc.location.start_position
        if pos == len(text):
            idx = len(starts)
        elif pos in starts:
            idx = starts.index(pos)
        else:
            ctx.fail("error-position-not-at-a-token-start", parser=kind, position=pos,
                     token_starts=starts, **info)
        return ("error", idx)
    if kind == "lr":
        return ("ok", repr(out.value))
    forest = out.value
    n, loop = G.forest_len(forest)
    if loop:
        return ("ok-cyclic",)
    if n > 300:
        return ("ok-many", n)
    return ("ok", n, tuple(sorted(repr(strip_positions(T.canon(forest[i]), text)) for i in range(n))))


def node_dump(n):
    """positions and layout of every node, depth first"""
    out = []
    stack = [n]
    while stack:
        x = stack.pop()
        out.append((x.symbol.name, x.start_position, x.end_position, x.layout_content,
                    x.value if x.is_term() else None))
        if not x.is_term():
            stack.extend(reversed(list(x.children)))
    return out


def full_outcome(parser, text, kind):
    """outcome incl. positions and layout_content (ws-vs-LAYOUT clause)"""
    if kind == "lr":
        out = G.run_parse_soft(parser, text, 0.5)
        if out.kind == "timeout":
            return ("timeout",)
    else:
        out = G.run_parse(parser, text)
    if out.kind == "other":
        return ("other", type(out.exc).__name__)
    if out.kind == "syntax":
        return ("error", out.exc.location.start_position, out.exc.location.line, out.exc.location.column)
    if kind == "lr":
        return ("ok", node_dump(out.value))
    forest = out.value
    n, loop = G.forest_len(forest)
    if loop:
        return ("ok-cyclic", node_dump(forest.get_first_tree()))
    return ("ok", n, [node_dump(forest[i]) for i in range(min(n, 20))])


def run_case(case, ctx):
    cfg = CFG.from_json(case["g"])
    l2 = case["lex"] == "L2"
    layout = case["layout"]
    # parser options that must not matter for layout: the table kind, and priorities on the layout
    # terminals (they never compete on the fillers used here, so every one of them must still be tried)
    kw = {"tables": pgl.TABLES[case.get("table", "LALR")]}
    ws_set = WS_SETS[case.get("ws", 0) % len(WS_SETS)] if layout == "ws" else None
    kw_ws = dict(kw, ws=ws_set) if ws_set is not None else kw       # the ws-based parsers only
    if layout == "ws":
        text_g = cfg.to_parglare()
    else:
        lterms = LAYOUT_TERMS.strip()
        for name, prio in zip(("WS", "LineComment", "NotComment"), case.get("layout_prios", [0, 0, 0])):
            if prio:
                lterms = re.sub(r"(?m)^(%s: /.*/);$" % name, lambda m: "%s {%d};" % (m.group(1), prio), lterms)
        text_g = cfg.to_parglare(extra_rules=LAYOUT_RULES.strip(), extra_terminals=lterms)
    tt = [L2_TEXT.get(n, v) if l2 else v for n, k_, v in cfg.terms]
    words = []
    for n in range(0, case["max_len"] + 1):
        words.extend(list(w) for w in itertools.product(tt, repeat=n))
    words += [w[:i] + ["#"] + w[i:] for w in list(words) if len(w) <= 2 for i in range(len(w) + 1)]
    parsers = []
    try:
        parsers.append(("glr", pgl.GLRParser(pgl.Grammar.from_string(text_g), **kw_ws)))
    except Exception as e:
        ctx.fail("glr-construction-raises", grammar=text_g, error=repr(e))
    try:
        parsers.append(("lr", pgl.Parser(pgl.Grammar.from_string(text_g), **kw_ws)))
    except (SRConflicts, RRConflicts):
        pass
    # equivalent LAYOUT variant (only meaningful for ws layout)
    eq = []
    if layout == "ws":
        rules, terms = EQUIV_LAYOUTS[case["equiv"] % len(EQUIV_LAYOUTS)]
        if ws_set is not None:
            # the LAYOUT rule that matches exactly runs of the characters of this ws (or nothing)
            rules, terms = "LAYOUT: WSX | EMPTY;", "WSX: /[%s]+/;" % "".join(
                "\\" + c if c in "\\]^-[/" else {"\t": "\\t", "\n": "\\n"}.get(c, c) for c in ws_set)
        text_eq = cfg.to_parglare(extra_rules=rules, extra_terminals=terms)
        # every other parse both parsers carry a (stateless, accept-all) dynamic filter that logs its calls:
        # how layout is skipped must not show in what the filter sees either
        flog = {"w": [], "l": []}
        if case.get("equiv", 0) % 2:
            def mkf(key):
                def f(context, from_state, to_state, action, production, subresults):
                    flog[key].append("init" if action is None else "call")
                    return None if action is None else True
                return f
            kw_ws = dict(kw_ws, dynamic_filter=mkf("w"))
            kw = dict(kw, dynamic_filter=mkf("l"))
        try:
            eq.append(("glr", pgl.GLRParser(pgl.Grammar.from_string(text_g), build_tree=True, **kw_ws),
                       pgl.GLRParser(pgl.Grammar.from_string(text_eq), build_tree=True, **kw)))
        except Exception as e:
            ctx.fail("glr-construction-raises", grammar=text_eq, error=repr(e))
        try:
            eq.append(("lr", pgl.Parser(pgl.Grammar.from_string(text_g), build_tree=True, **kw_ws),
                       pgl.Parser(pgl.Grammar.from_string(text_eq), build_tree=True, **kw)))
        except (SRConflicts, RRConflicts):
            pass
    ctx.label("layout:" + layout)
    dead = set()
    for k, w in enumerate(words):
        t1, s1, ne1 = render_with_starts(w, case["fill1"], k, l2)
        t2, s2, ne2 = render_with_starts(w, case["fill2"], k, l2)
        info = dict(grammar=text_g, tokens=w, text1=t1, text2=t2)
        for kind, parser in parsers:
            if kind in dead:
                continue
            o1 = outcome(parser, t1, kind, s1, cfg, ctx, dict(grammar=text_g, text=t1))
            o2 = outcome(parser, t2, kind, s2, cfg, ctx, dict(grammar=text_g, text=t2))
            if "timeout" in (o1[0], o2[0]):
                dead.add(kind)
                continue
            if o1 != o2:
                ctx.fail("layout-changes-the-parse", parser=kind, outcome1=repr(o1)[:300],
                         outcome2=repr(o2)[:300], **info)
            ctx.label("pairs-compared")
            ctx.label("pair:" + o1[0])
        for kind, pw, pl in eq:
            if "eq" + kind in dead:
                continue
            for text in (t1, t2):
                del flog["w"][:], flog["l"][:]
                a = full_outcome(pw, text, kind)
                b = full_outcome(pl, text, kind)
                if "timeout" in (a[0], b[0]):
                    dead.add("eq" + kind)
                    break
                if flog["w"] != flog["l"]:
                    ctx.fail("dynamic-filter-sees-the-layout-mechanism", parser=kind, text=text, grammar_ws=text_g,
                             layout_rule=rules + " " + terms, calls_with_ws=flog["w"][:12],
                             calls_with_LAYOUT=flog["l"][:12])
                if a != b:
                    ctx.fail("LAYOUT-rule-differs-from-ws", parser=kind, text=text, grammar_ws=text_g,
                             layout_rule=rules + " " + terms, ws_parameter=ws_set,
                             ws=repr(a)[:400], layout=repr(b)[:400])
                ctx.label("ws-vs-LAYOUT-compared")
        diff = [i for i in range(len(ne1)) if (t1 != t2) and
                case["fill1"][(i + k) % len(case["fill1"])] != case["fill2"][(i + k) % len(case["fill2"])]]
        if len(diff) >= 2 and (0 in diff or len(ne1) - 1 in diff):
            ctx.nontrivial([case["g"], layout, w, case["fill1"], case["fill2"]],
                           sample={"grammar": text_g, "tokens": w, "text1": t1, "text2": t2})


def _case(gstrat, lex):
    @st.composite
    def c(draw):
        g = draw(gstrat)
        layout = draw(st.sampled_from(["ws", "ws", "comments"]))
        pool = WS_FILL if layout == "ws" else CM_FILL
        ws = draw(st.sampled_from([0, 0, 0, 1, 2, 3, 4])) if layout == "ws" else 0
        if ws:
            chars = WS_SETS[ws]
            pool = [""] + list(chars) + [a + b for a in chars for b in chars][:6]
        f1 = draw(st.lists(st.sampled_from(pool), min_size=3, max_size=6))
        f2 = draw(st.lists(st.sampled_from(pool), min_size=3, max_size=6))
        nterm = len(g["terms"])
        return {"g": g, "lex": lex, "layout": layout, "fill1": f1, "fill2": f2, "ws": ws,
                "table": draw(st.sampled_from(["LALR", "LALR", "SLR"])),
                "layout_prios": draw(st.lists(st.sampled_from([0, 0, 5, 15]), min_size=3, max_size=3)),
                "equiv": draw(st.integers(0, 7)), "max_len": 4 if nterm <= 2 else 3}
    return c()


def strat_l0(tier):
    return _case(gen.cfgs(max_nts=3, max_alts=3, max_rhs=3), "L0")


def strat_l2(tier):
    return _case(gen.cfgs(max_nts=3, max_alts=3, max_rhs=3, min_terms=2, max_terms=3,
                          terms_pool=gen.L2_TERMS), "L2")


def enum_classics(tier):
    def it():
        i = 0
        for name, g in gen.CLASSICS.items():
            for layout, f1, f2 in (("ws", ["", "", ""], [" ", "\n", "\t "]),
                                   ("comments", ["", " ", ""], ["// c\n", " /* a /* b */ */ ", "/**/"])):
                i += 1
                yield {"g": g, "lex": "L0", "layout": layout, "fill1": f1, "fill2": f2, "equiv": i,
                       "max_len": 4 if len(g["terms"]) <= 2 else 3}
    return it()


SUBCHECKS = [
    SubCheck("classics", run_case, enumerate=enum_classics),
    SubCheck("random-L0", run_case, strategy=strat_l0, examples={"quick": 1600, "thorough": 16000}),
    SubCheck("random-L2-multichar", run_case, strategy=strat_l2, examples={"quick": 800, "thorough": 8000}),
]


def subcheck(name):
    return {s.name: s for s in SUBCHECKS}[name]
