"""C16 - tables and forests are deterministic across processes and hash
seeds.  Oracle: equality of observations between subprocesses started with
different PYTHONHASHSEED values (and a repeated construction in one process)."""
import json
import os
import subprocess
import sys

from hypothesis import strategies as st

from .. import gen, VERIF_DIR, REPO_DIR
from ..cfg import CFG
from ..core import SubCheck
from .c06 import table_grammar, tables as op_tables

RULE = ("case = batch of 6 grammars (random small grammars, grammars with many terminals whose names differ in one "
        "character, operator grammars without priorities, multi-file grammars whose imported files define terminals of "
        "the same name) with ambiguous inputs; the batch is built in fresh subprocesses under PYTHONHASHSEED 0,1,2,3 "
        "(12 values in the thorough tier) and twice in one process; serialised tables (LR/GLR x LALR/SLR), action order, "
        ".pgc bytes, conflict reports, LR results and forest trees in index order must be identical; non-trivial = "
        "grammar with a multi-action cell or a reduce lookahead set of >= 3 terminals together with an input having "
        ">= 2 trees; distinct by grammar")
ASSUMPTIONS = [
    "a finite set of hash seeds is explored; determinism for all seeds is not shown",
]

SEEDS_QUICK = ["0", "1", "2", "3"]
SEEDS_THOROUGH = ["0", "1", "2", "3", "4", "5", "7", "11", "42", "1234", "99999", "4294967295"]


def run_worker(batch, hashseed):
    env = dict(os.environ)
    env["PYTHONHASHSEED"] = hashseed
    env["PYTHONPATH"] = REPO_DIR + os.pathsep + VERIF_DIR
    p = subprocess.run([sys.executable, "-m", "pv.c16_worker"], input=json.dumps(batch), env=env,
                       capture_output=True, text=True, timeout=600, cwd=VERIF_DIR)
    if p.returncode != 0:
        raise RuntimeError("worker failed: %s" % p.stderr[-2000:])
    return json.loads(p.stdout)


def run_case(case, ctx):
    batch = case["batch"]
    seeds = SEEDS_THOROUGH if ctx.tier == "thorough" else SEEDS_QUICK
    results = {s: run_worker(batch, s) for s in seeds}
    results["0-again"] = run_worker(batch, "0")
    base = results[seeds[0]]
    for s, res in results.items():
        for i, (a, b) in enumerate(zip(base, res)):
            if a != b:
                keys = [k for k in set(a) | set(b) if a.get(k) != b.get(k)]
                sub = keys[0]
                what = [k for k in set(a.get(sub, {})) | set(b.get(sub, {}))
                        if isinstance(a.get(sub), dict) and isinstance(b.get(sub), dict) and a[sub].get(k) != b[sub].get(k)]
                ctx.fail("observations-differ-between-hash-seeds", seeds=[seeds[0], s], parser=sub, differing=what,
                         grammar=batch[i].get("text") or batch[i].get("files"), inputs=batch[i]["inputs"],
                         first=json.dumps(a.get(sub))[:300], second=json.dumps(b.get(sub))[:300])
    for spec, obs in zip(batch, base):
        if "error" in obs:
            ctx.fail("worker-error", error=obs["error"], grammar=spec.get("text") or spec.get("files"))
        ctx.label("grammars")
        for key, o in obs.items():
            sec = o.get("second_construction") if isinstance(o, dict) else None
            if sec is not None:
                ctx.label("second construction from the cached table compared")
                if "table" in o:      # the first construction succeeded
                    same = "raises" not in sec and sec.get("table") == o["table"] and \
                        sec.get("conflicts") == o["conflicts"] and sec.get("forests") == o.get("forests")
                else:                 # it reported conflicts
                    same = "raises" in sec and sec.get("conflicts") == o["conflicts"]
                if not same:
                    ctx.fail("cached-table-means-something-else-in-the-next-construction", parser=key,
                             first=json.dumps(o)[:300], second=json.dumps(sec)[:300],
                             grammar=spec.get("text") or spec.get("files"))
        glr = obs.get("GLR/LALR", {})
        multi = bool(glr.get("conflicts"))
        amb = any(isinstance(x, int) and x >= 2 for x in glr.get("forest_sizes", []))
        if multi:
            ctx.label("multi-action-cells")
        if amb:
            ctx.label("ambiguous-inputs")
        if multi and amb:
            ctx.nontrivial([spec.get("text") or spec.get("files")],
                           sample={"grammar": spec.get("text") or spec.get("files"), "inputs": spec["inputs"],
                                   "forest_sizes": glr.get("forest_sizes"), "hash_seeds": seeds})


# ---------------------------------------------------------------- strategies
SIMILAR = ["t%s" % c for c in "abcdefgh"] + ["ta%s" % c for c in "abcd"] + ["T", "Ta", "tA"]


@st.composite
def similar_terms_grammar(draw):
    """many terminals whose names differ in one character, all in one
    lookahead set"""
    k = draw(st.integers(3, 8))
    names = draw(st.lists(st.sampled_from(SIMILAR), min_size=k, max_size=k, unique=True))
    chars = "abcdefghijklmnop"
    alts = " | ".join("L %s" % n for n in names)
    text = "S: %s | S S;\nL: x | EMPTY | L x;\nterminals\nx: 'x';\n%s\n" % (
        alts, "\n".join("%s: '%s';" % (n, chars[i]) for i, n in enumerate(names)))
    inputs = ["x " + chars[0], chars[1] + " " + chars[0], "x x %s x %s %s" % (chars[0], chars[1], chars[2]), ""]
    return {"text": text, "inputs": inputs}


@st.composite
def cfg_spec(draw):
    g = CFG.from_json(draw(gen.cfgs(max_nts=3, max_alts=3, max_rhs=3)))
    t = [v for _, _, v in g.terms]
    inputs = [" ".join(w) for w in [t * 1, t * 2, (t + t[::-1]), [t[0]] * 4, [t[-1]] * 3 + [t[0]], []]]
    return {"text": g.to_parglare(), "inputs": inputs}


@st.composite
def op_spec(draw):
    case = draw(op_tables())
    case = dict(case, style="prod")
    text = table_grammar(case)
    import re
    text = re.sub(r" \{[^}]*\}", "", text)      # drop priorities: ambiguous operator grammar
    ops = [["+", "-", "*", "/", "^", "%"][o[0]] for o in case["ops"]]
    a = "n" if case["atom"] == "str" else "7"
    inputs = [" ".join([a] + [x for o in (ops * 3)[:k] for x in (o, a)]) for k in (1, 2, 3, 4)]
    return {"text": text, "inputs": inputs}


@st.composite
def multifile_spec(draw):
    """two imported files define terminals with the same name"""
    tn = draw(st.sampled_from(["NUM", "T", "ID"]))
    ra, rb = draw(st.sampled_from([(r"\d+", r"\d"), (r"[a-z]+", r"[a-z]"), (r"\d+", r"\d+")]))
    root = ("import 'a.pg';\nimport 'b.pg';\nS: E a.X | E b.Y | S S;\nE: 'e' | EMPTY;\n")
    fa = "X: %s 'x' | %s;\nterminals\n%s: /%s/;\n" % (tn, tn, tn, ra)
    fb = "Y: %s 'y' | %s;\nterminals\n%s: /%s/;\n" % (tn, tn, tn, rb)
    sample = "1" if "d" in ra else "q"
    inputs = [sample, "e " + sample, sample + " x " + sample, "e %s y e %s" % (sample, sample), ""]
    return {"files": {"root.pg": root, "a.pg": fa, "b.pg": fb}, "root": "root.pg", "inputs": inputs}


@st.composite
def batches(draw):
    batch = [draw(similar_terms_grammar()), draw(multifile_spec()), draw(op_spec())]
    batch += [draw(cfg_spec()) for _ in range(3)]
    return {"batch": batch}


def strat(tier):
    return batches()


# heavily ambiguous nullable grammars over one terminal: the GLR driver revisits heads, pushes a new link
# through several already processed heads of one frontier and merges alternatives - every place where the
# order of a set or dict of heads could leak into the order of the forest
NA_S = [["A"], ["a"], ["a", "A", "S"], ["A", "S"], ["S", "A"], ["S", "S"], ["a", "S"], ["S", "a"], ["A", "a", "A"],
        ["A", "A"], ["a", "A"], ["A", "S", "A"]]
NA_A = [["a", "A"], ["A", "a"], ["a"], ["S"], ["A", "A"], ["a", "S", "a"], ["S", "a"]]


@st.composite
def nullable_ambiguous_spec(draw):
    # one alternative without S keeps S productive
    s_alts = [draw(st.sampled_from([x for x in NA_S if "S" not in x]))]
    s_alts += draw(st.lists(st.sampled_from([x for x in NA_S if x != s_alts[0]]), min_size=1, max_size=2,
                            unique_by=tuple))
    s_alts = draw(st.permutations(s_alts))
    a_alts = draw(st.lists(st.sampled_from(NA_A), min_size=1, max_size=2, unique_by=tuple))
    text = "S: %s;\nA: %s | EMPTY;\nterminals\na: 'a';\n" % (
        " | ".join(" ".join(x) for x in s_alts), " | ".join(" ".join(x) for x in a_alts))
    return {"text": text, "inputs": ["a", "a a", "a a a", "a a a a"], "only": ["GLR/LALR", "GLR/SLR"]}


@st.composite
def na_batches(draw):
    return {"batch": [draw(nullable_ambiguous_spec()) for _ in range(12)]}


def strat_na(tier):
    return na_batches()


SUBCHECKS = [
    SubCheck("hash-seed-batches", run_case, strategy=strat, examples={"quick": 48, "thorough": 400},
             case_timeout=900),
    SubCheck("hash-seed-nullable-ambiguous", run_case, strategy=strat_na, examples={"quick": 32, "thorough": 300},
             case_timeout=900),
]


def subcheck(name):
    return {s.name: s for s in SUBCHECKS}[name]
