"""C08 - parse trees are positionally faithful and lossless.  Oracle: the
stated per-node predicates evaluated on every node of every tree, plus
instrumented actions recording the positions callbacks receive."""
from hypothesis import strategies as st

from .. import gen, glrcore as G, pgl
from ..cfg import CFG
from ..core import SubCheck
from ..ref_chart import Chart, Lexicon

import parglare
from parglare.exceptions import SRConflicts, RRConflicts

RULE = ("case = (productive grammar biased to EMPTY at the beginning/middle/end of rules, lexicon L0|L2, ws-based or "
        "LAYOUT-rule layout with comments, layout fillers for every token boundary incl. leading and trailing); every "
        "sentence among all token strings up to 4-5 tokens is parsed by Parser(build_tree=True) where it constructs "
        "and by GLR (every tree up to 200 + get_first_tree); non-trivial = tree that contains an empty node or whose "
        "input has layout at >= 2 boundaries; distinct by (grammar, layout kind, input)")
ASSUMPTIONS = [
    "LR and GLR may place empty nodes on either side of the following layout; both satisfy the predicates and they are not compared with each other",
    "ignore_case is outside this property's quantifier",
]

L2_TEXT = {"num": "12", "id": "ab", "p": "+", "q": ";", "kw": "=>"}
WS_FILL = ["", " ", "  ", "\t", "\n", " \n ", "\r\n"]
CM_FILL = ["", " ", "\n", "// c\n", "/* x */", " /* a /* b */ c */ ", "//\n  ", "/**/"]
LAYOUT_RULES = """
LAYOUT: LayoutItem | LAYOUT LayoutItem | EMPTY;
LayoutItem: WS | Comment;
Comment: '/*' CorNCs '*/' | LineComment;
CorNCs: CorNC | CorNCs CorNC | EMPTY;
CorNC: Comment | NotComment | WS;
"""
LAYOUT_TERMS = r"""
WS: /\s+/;
LineComment: /\/\/.*/;
NotComment: /((\*[^\/])|[^\s*\/]|\/[^\*])+/;
"""
# reference regular expression cannot match nested comments; a small matcher does


def skip_layout_comments(text, p):
    n = len(text)
    while p < n:
        if text[p] in " \t\r\n\f\v":
            p += 1
        elif text.startswith("//", p):
            while p < n and text[p] != "\n":
                p += 1
        elif text.startswith("/*", p):
            depth = 0
            q = p
            while q < n:
                if text.startswith("/*", q):
                    depth += 1
                    q += 2
                elif text.startswith("*/", q):
                    depth -= 1
                    q += 2
                    if depth == 0:
                        break
                else:
                    q += 1
            if depth != 0:
                return p
            p = q
        else:
            break
    return p


class CommentLexicon(Lexicon):
    def skip(self, text, p):
        return skip_layout_comments(text, p)


def render(tokens, fill, k, l2):
    n = len(fill)
    out = [fill[k % n]]
    for i, t in enumerate(tokens):
        out.append(t)
        f = fill[(i + 1 + k) % n]
        if l2 and f == "" and i + 1 < len(tokens) and t[-1].isalnum() and tokens[i + 1][0].isalnum():
            f = " "
        out.append(f)
    return "".join(out)


def node_children(n):
    return list(n.children) if not n.is_term() else []


class SpanDiscrepancy(Exception):
    def __init__(self, kind, details):
        super().__init__(kind)
        self.kind = kind
        self.details = details


def check_tree(root, text, lex, who, ctx, info, collect_span=False):
    """all per-node predicates of the statement; returns (has_empty_node,
    leaves).  With collect_span the three span-relation predicates raise
    SpanDiscrepancy instead of failing (the caller evaluates finding D17's
    signature)."""
    def span_fail(kind, **d):
        if collect_span:
            raise SpanDiscrepancy(kind, d)
        d.pop("_region", None)
        ctx.fail(kind, **d)
    N = len(text)
    has_empty = False
    leaves = []
    stack = [(root, None)]
    order = []
    while stack:
        n, parent = stack.pop()
        order.append((n, parent))
        s, e = n.start_position, n.end_position
        name = n.symbol.name
        if not (isinstance(s, int) and isinstance(e, int) and not isinstance(s, bool)):
            if who.startswith("LR"):
                ctx.known("D7", "non-integer-position", parser=who, node=name, start=repr(s), end=repr(e), **info)
                return None, None
            ctx.fail("non-integer-position", parser=who, node=name, start=repr(s), end=repr(e), **info)
        if 0 <= e < s <= N:
            span_fail("start-after-end", parser=who, node=name, start=s, end=e, _region=(e, s), **info)
        if not (0 <= s <= e <= N):
            ctx.fail("position-out-of-bounds", parser=who, node=name, start=s, end=e, length=N, **info)
        if parent is not None:
            ps, pe = parent.start_position, parent.end_position
            if not (ps <= s and e <= pe):
                span_fail("child-outside-parent-span", parser=who, node=name, span=[s, e],
                          parent=parent.symbol.name, parent_span=[ps, pe],
                          _region=(min(s, ps), max(s, ps)) if s < ps else (min(e, pe), max(e, pe)), **info)
        if n.is_term():
            if n.value != text[s:e]:
                ctx.fail("terminal-value-is-not-input-slice", parser=who, node=name, value=n.value,
                         slice=text[s:e], span=[s, e], **info)
            if s == e:
                ctx.fail("empty-terminal-node", parser=who, node=name, **info)
        else:
            kids = node_children(n)
            if not kids:
                has_empty = True
            prev_end = None
            for c in kids:
                cs, ce = c.start_position, c.end_position
                if isinstance(cs, int) and isinstance(ce, int) and prev_end is not None and cs < prev_end:
                    span_fail("siblings-overlap-or-out-of-order", parser=who, node=name,
                              child=c.symbol.name, child_start=cs, previous_end=prev_end,
                              _region=(cs, prev_end), **info)
                if isinstance(ce, int):
                    prev_end = ce
            for c in reversed(kids):
                stack.append((c, n))
    # leaves left to right
    def walk(n):
        st_ = [n]
        while st_:
            x = st_.pop()
            if x.is_term():
                leaves.append(x)
            else:
                st_.extend(reversed(node_children(x)))
    walk(root)
    # lossless reconstruction
    acc = ""
    for lf in leaves:
        lc = lf.layout_content
        if not isinstance(lc, str):
            ctx.fail("layout_content-not-a-string", parser=who, node=lf.symbol.name, value=repr(lc), **info)
        acc += lc + lf.value
        if acc != text[:lf.end_position]:
            ctx.fail("layout+value-concatenation-differs-from-input", parser=who, node=lf.symbol.name,
                     reconstructed=acc, input_prefix=text[:lf.end_position], **info)
    rest = text[len(acc):]
    if lex.skip(rest, 0) != len(rest):
        ctx.fail("remainder-after-last-token-is-not-layout", parser=who, remainder=rest, **info)
    return has_empty, leaves


def make_actions(cfg, log):
    def nt_action(name):
        def act(context, nodes):
            log.append(("N", name, context.start_position, context.end_position, len(nodes)))
            return ("N", name, context.start_position, context.end_position, tuple(nodes))
        return act

    def t_action(name):
        def act(context, value):
            log.append(("T", name, context.start_position, context.end_position, value))
            return ("T", name, context.start_position, context.end_position)
        return act
    acts = {n: nt_action(n) for n in cfg.nts}
    acts.update({t: t_action(t) for t in cfg.term_names})
    return acts


def positions_preorder(root):
    """(kind, name, start, end) of every node, children before parents, left
    to right (the order in which LR calls actions)"""
    out = []

    def rec(n):
        if n.is_term():
            out.append(("T", n.symbol.name, n.start_position, n.end_position))
        else:
            for c in node_children(n):
                rec(c)
            out.append(("N", n.symbol.name, n.start_position, n.end_position))
    import sys
    old = sys.getrecursionlimit()
    sys.setrecursionlimit(10000)
    try:
        rec(root)
    finally:
        sys.setrecursionlimit(old)
    return out


def run_case(case, ctx):
    cfg = CFG.from_json(case["g"])
    l2 = case["lex"] == "L2"
    layout = case["layout"]
    if layout == "ws":
        text_g = cfg.to_parglare()
        lex = Lexicon(cfg.terms)
    else:
        text_g = cfg.to_parglare(extra_rules=LAYOUT_RULES.strip(), extra_terminals=LAYOUT_TERMS.strip())
        lex = CommentLexicon(cfg.terms)
    tt = [L2_TEXT.get(n, v) if l2 else v for n, k_, v in cfg.terms]
    import itertools
    words = []
    for n in range(0, case["max_len"] + 1):
        words.extend(list(w) for w in itertools.product(tt, repeat=n))
    try:
        glr = pgl.GLRParser(pgl.Grammar.from_string(text_g))
    except Exception as e:
        ctx.fail("glr-construction-raises", grammar=text_g, error=repr(e))
    lr = lr_act = None
    log = []
    try:
        lr = pgl.Parser(pgl.Grammar.from_string(text_g), build_tree=True, actions=make_actions(cfg, log))
        lr_act = pgl.Parser(pgl.Grammar.from_string(text_g), actions=make_actions(cfg, log))
    except (SRConflicts, RRConflicts):
        ctx.label("lr-not-constructible")
    ctx.label("layout:" + layout)
    ctx.label("lex:" + case["lex"])
    cyclic = cfg.is_cyclic()
    if case["lex"] == "L1":
        # overlapping lexicon: character level inputs with layout inserted at
        # generated places (lexical ambiguity forks GLR heads)
        texts = []
        fl = [f for f in case["fill"] if f] or [" "]
        for k, s0 in enumerate(G.char_inputs("ab", case["max_len"])):
            f = fl[k % len(fl)]
            texts.append(s0)
            for i in range(0, len(s0) + 1):
                texts.append(s0[:i] + f + s0[i:])
            if len(s0) >= 2:
                texts.append(s0[:1] + f + s0[1:-1] + f + s0[-1:])
        words = [[t] for t in texts]
    for k, w in enumerate(words):
        text = render(w, case["fill"], k, l2) if case["lex"] != "L1" else w[0]
        chart = Chart(cfg, lex, text)
        if not chart.accepts():
            continue
        info = dict(grammar=text_g, input=text)
        nlayout = sum(1 for i in range(len(w) + 1) if case["fill"][(i + k) % len(case["fill"])] != "") \
            if case["lex"] != "L1" else (2 if text != text.strip() or " " in text.strip() else 0)
        has_empty_any = False
        # ---- GLR ---------------------------------------------------------
        out = G.run_parse(glr, text)
        if out.kind == "ok":
            forest = out.value
            n, loop = G.forest_len(forest)
            trees = []
            if not loop:
                ntrees = 40 if case.get("pin") or ctx.tier != "thorough" else 200
                trees = [("GLR forest[%d]" % i, forest[i]) for i in range(min(n, ntrees))]
                trees.append(("GLR nonlazy[0]", forest.get_nonlazy_tree(0)))
            trees.append(("GLR get_first_tree", forest.get_first_tree()))
            d17_obs = []
            for who, t in trees:
                try:
                    he, _ = check_tree(t, text, lex, who, ctx, info, collect_span=True)
                except SpanDiscrepancy as sd:
                    # Finding D17: a packed node keeps the span of its first
                    # alternative; alternatives that differ in where an empty
                    # reduction sits relative to layout get inconsistent
                    # spans.  Signature: GLR, the input contains layout, and
                    # the same tokens without any layout give a forest whose
                    # trees all satisfy the predicates.
                    # Signature: GLR tree, and the region by which the spans
                    # disagree consists of layout only (the disagreement is
                    # about which side of the layout an empty node sits on).
                    a, b = sd.details.pop("_region")
                    region = text[a:b]
                    ok_bare = a <= b and lex.skip(region, 0) == len(region)
                    if ok_bare:
                        d17_obs.append([who, sd.kind] + [repr(sd.details.get(k)) for k in
                                                        ("node", "span", "parent", "parent_span", "start", "end",
                                                         "child", "child_start", "previous_end")])
                        if not case.get("pin"):
                            ctx.known("D17", sd.kind, **sd.details)
                        he = True
                    else:
                        ctx.fail(sd.kind, **sd.details)
                has_empty_any = has_empty_any or bool(he)
            if case.get("pin"):
                # pinned corpus of the D17 class: the recorded manifestation (which node of which tree
                # disagrees with which parent) is required exactly, so that another defect that shows as
                # 'spans disagree by layout only' is still reported
                from ..core import stable_hash
                ckey = stable_hash([case["g"], case["layout"], case["fill"], case["max_len"]])
                key = stable_hash([case["g"], case["layout"], text])
                now = stable_hash(d17_obs) if d17_obs else "clean"
                rec = ctx.__dict__.get("_recording")
                if rec is not None:
                    rec.setdefault("cases", set()).add(ckey)
                    if d17_obs:
                        rec.setdefault("pins", {})[key] = now
                elif ckey in d17_pins()["cases"]:
                    ctx.label("compared-with-recorded-behaviour")
                    want = d17_pins()["pins"].get(key, "clean")
                    if want != now:
                        ctx.fail("behaviour-differs-from-recorded-finding", recorded=want, now=now,
                                 discrepancies=d17_obs[:3], **info)
                    if d17_obs:
                        ctx.label("recorded D17 manifestation confirmed")
            ctx.label("glr-trees-checked", len(trees))
        else:
            ctx.label("glr-not-accepted (C01/C02's subject)")
        # ---- LR ----------------------------------------------------------
        if lr is not None:
            out = G.run_parse_soft(lr, text, 0.5)
            if out.kind == "ok":
                he, leaves = check_tree(out.value, text, lex, "LR build_tree", ctx, info)
                has_empty_any = has_empty_any or bool(he)
                ctx.label("lr-trees-checked")
                if he is not None:
                    # positions seen by actions: on the fly and via call_actions
                    want = positions_preorder(out.value)
                    del log[:]
                    o2 = G.run_parse_soft(lr_act, text, 0.5)
                    if o2.kind == "ok":
                        got = [(x[0], x[1], x[2], x[3]) for x in log]
                        if got != want:
                            ctx.fail("action-context-positions-differ-from-tree", route="on-the-fly",
                                     actions=got[:12], tree=want[:12], **info)
                    del log[:]
                    try:
                        lr.call_actions(out.value)
                    except Exception as e:
                        ctx.fail("call_actions-raises", error=repr(e), **info)
                    got = sorted((x[0], x[1], x[2], x[3]) for x in log)
                    if got != sorted(want):
                        ctx.fail("action-context-positions-differ-from-tree", route="call_actions",
                                 actions=got[:12], tree=sorted(want)[:12], **info)
            elif out.kind == "timeout":
                lr = None
        if has_empty_any:
            ctx.label("tree-with-empty-node")
        if has_empty_any or nlayout >= 2:
            ctx.nontrivial([case["g"], layout, text],
                           sample={"grammar": text_g, "input": text, "empty_node": has_empty_any,
                                   "boundaries_with_layout": nlayout})


def _case(gstrat, lex):
    @st.composite
    def c(draw):
        g = draw(gstrat)
        layout = draw(st.sampled_from(["ws", "ws", "comments"]))
        fill = draw(st.lists(st.sampled_from(WS_FILL if layout == "ws" else CM_FILL), min_size=3, max_size=6))
        nterm = len(g["terms"])
        return {"g": g, "lex": lex, "layout": layout, "fill": fill, "max_len": 5 if nterm <= 2 else 4}
    return c()


# ------------------------------------------------ objects created by the obj action
def named_grammar(cfg, layout):
    """every right-hand-side symbol gets a name (n0=..., n1=...), so every rule builds objects through the
    default obj action"""
    by = {}
    for lhs, rhs in cfg.prods:
        by.setdefault(lhs, []).append(" ".join("n%d=%s" % (i, x) for i, x in enumerate(rhs)) if rhs else "EMPTY")
    lines = ["%s: %s;" % (n, " | ".join(by[n])) for n in cfg.nts if n in by]
    if layout != "ws":
        lines.append(LAYOUT_RULES.strip())
    lines.append("terminals")
    for n, k, v in cfg.terms:
        lines.append("%s: '%s';" % (n, v))
    if layout != "ws":
        lines.append(LAYOUT_TERMS.strip())
    return "\n".join(lines) + "\n"


def compare_obj(node, obj, path, problems, obj_rules):
    """parallel walk: tree node <-> object built for it"""
    if node.symbol.name not in obj_rules:
        return      # a rule with only EMPTY alternatives has no named match, hence no obj action
    if not hasattr(obj, "_pg_start_position"):
        problems.append("%s: result %r is not an object of the obj action" % (path, type(obj).__name__))
        return
    if (obj._pg_start_position, obj._pg_end_position) != (node.start_position, node.end_position):
        problems.append("%s: object says [%r, %r], tree node %s says [%r, %r]" % (
            path, obj._pg_start_position, obj._pg_end_position, node.symbol.name, node.start_position,
            node.end_position))
        return
    for i, ch in enumerate(node.children):
        v = getattr(obj, "n%d" % i, None)
        if ch.is_term():
            if v != ch.value:
                problems.append("%s.n%d: attribute %r, token %r" % (path, i, v, ch.value))
        else:
            compare_obj(ch, v, "%s.n%d" % (path, i), problems, obj_rules)


def run_obj(case, ctx):
    cfg = CFG.from_json(case["g"])
    layout = case["layout"]
    text_g = named_grammar(cfg, layout)
    obj_rules = {lhs for lhs, rhs in cfg.prods if rhs}
    info0 = dict(grammar=text_g)
    try:
        glr = pgl.GLRParser(pgl.Grammar.from_string(text_g))
    except Exception as e:
        ctx.fail("grammar-with-named-matches-rejected", error=repr(e)[:300], **info0)
    try:
        lr_tree = pgl.Parser(pgl.Grammar.from_string(text_g), build_tree=True)
        lr_fly = pgl.Parser(pgl.Grammar.from_string(text_g))
    except (SRConflicts, RRConflicts):
        lr_tree = lr_fly = None
    dead = False
    for k, w in enumerate(G.l0_inputs(cfg, case["max_len"], junk_upto=0)):
        text = G.render(w, case["fill"], k)
        info = dict(input=text, **info0)
        if lr_tree is not None and not dead:
            a = G.run_parse_soft(lr_tree, text, 0.5)
            if a.kind == "timeout":
                dead = True
                ctx.label("lr-slow-or-nonterminating (skipped)")
            elif a.kind == "ok":
                b = G.run_parse_soft(lr_fly, text, 0.5)
                if b.kind != "ok":
                    ctx.fail("actions-change-acceptance", outcome=b.kind, **info)
                for route, objs in (("on the fly", b.value), ("call_actions", lr_tree.call_actions(a.value))):
                    problems = []
                    compare_obj(a.value, objs, "S", problems, obj_rules)
                    if problems:
                        ctx.fail("object-positions-differ-from-tree-node", parser="LR", route=route,
                                 problem=problems[0], **info)
                ctx.label("lr-object-trees-compared")
                if w:
                    ctx.nontrivial([case["g"], layout, text, "LR"], sample={"grammar": text_g, "input": text})
        out = G.run_parse(glr, text)
        if out.kind != "ok":
            continue
        n, loop = G.forest_len(out.value)
        if loop:
            continue
        for i in range(min(n, 12)):
            for tree in (out.value[i], out.value.get_nonlazy_tree(i)):
                problems = []
                compare_obj(tree, glr.call_actions(tree), "S", problems, obj_rules)
                if problems:
                    ctx.fail("object-positions-differ-from-tree-node", parser="GLR", index=i, problem=problems[0],
                             **info)
        ctx.label("glr-object-trees-compared")
        if w:
            ctx.nontrivial([case["g"], layout, text, "GLR"], sample={"grammar": text_g, "input": text, "trees": n})


def strat_obj(tier):
    @st.composite
    def c(draw):
        g = draw(gen.cfgs(max_nts=3, max_alts=3, max_rhs=3).filter(gen.acyclic))
        layout = draw(st.sampled_from(["ws", "ws", "comments"]))
        fill = draw(st.lists(st.sampled_from(WS_FILL if layout == "ws" else CM_FILL), min_size=3, max_size=6))
        return {"g": g, "layout": layout, "fill": fill, "max_len": 4 if len(g["terms"]) <= 2 else 3}
    return c()


_D17 = None


def d17_pins():
    global _D17
    if _D17 is None:
        import json
        import os
        from .. import VERIF_DIR
        path = os.path.join(VERIF_DIR, "regress", "C08", "D17-pins.json")
        data = json.load(open(path)) if os.path.exists(path) else {"cases": [], "pins": {}}
        _D17 = {"cases": set(data["cases"]), "pins": data["pins"]}
    return _D17


TRAILING_EMPTY = [
    # an EMPTY production at the end / in the middle / at the start of a rule next to another derivation of
    # the same non-terminal over the same tokens: the shapes on which GLR alternatives have different spans
    {"nts": ["S", "A", "E"], "prods": [["S", ["A", "c"]], ["A", ["b", "E"]], ["A", ["b"]], ["E", []]]},
    {"nts": ["S", "A", "B", "C", "E"], "prods": [["S", ["A", "C"]], ["A", ["B", "E"]], ["A", ["B"]], ["E", []],
                                                  ["B", ["b"]], ["C", ["c"]]]},
    {"nts": ["S", "X", "A", "E"], "prods": [["S", ["X", "c"]], ["X", ["A"]], ["A", ["b", "E"]], ["A", ["b"]],
                                             ["E", []]]},
    {"nts": ["S", "A", "E"], "prods": [["S", ["A", "A"]], ["A", ["b", "E"]], ["A", ["b"]], ["A", ["E"]], ["E", []]]},
    {"nts": ["S", "A", "E"], "prods": [["S", ["c", "A"]], ["A", ["E", "b"]], ["A", ["b"]], ["E", []]]},
    {"nts": ["S", "A", "E"], "prods": [["S", ["A", "c", "A"]], ["A", ["b", "E", "b"]], ["A", ["b", "b"]], ["A", ["E"]],
                                       ["E", []]]},
]


def enum_d17(tier):
    def it():
        fills = (("ws", ["", " ", "\n ", ""]), ("ws", [" ", "  ", "", "\t"]),
                 ("comments", ["", "// c\n", " /* a /* b */ */ ", " "]))
        for g0 in TRAILING_EMPTY:
            g = dict(g0, terms=[["b", "str", "b"], ["c", "str", "c"]])
            for layout, fill in fills:
                yield {"g": g, "lex": "L0", "layout": layout, "fill": fill, "max_len": 4, "pin": True}
        for name, g in gen.CLASSICS.items():
            for layout, fill in fills[:2]:
                yield {"g": g, "lex": "L0", "layout": layout, "fill": fill,
                       "max_len": 4 if len(g["terms"]) <= 2 else 3, "pin": True}
        for i, g in enumerate(gen.epsilon_family()):
            if i % 6 == 0:
                yield {"g": g, "lex": "L0", "layout": "ws", "fill": [" ", "", "\n"], "max_len": 3, "pin": True}
    return it()


def strat_l0(tier):
    return _case(gen.cfgs(max_nts=3, max_alts=3, max_rhs=3), "L0")


def strat_l2(tier):
    return _case(gen.cfgs(max_nts=3, max_alts=3, max_rhs=3, min_terms=2, max_terms=3,
                          terms_pool=gen.L2_TERMS), "L2")


def strat_l1(tier):
    @st.composite
    def c(draw):
        # incl. terminals that match across a space: a token then competes with a shorter one that is
        # followed by layout (heads with different layout ahead meet in one GSS node)
        pool = gen.L1_TERMS + [("asa", "re", r"a(\ a)?"), ("a_b", "re", r"a\ ?b"), ("bsp", "re", r"b(\ b)*")]
        g = draw(gen.cfgs(max_nts=3, max_alts=3, max_rhs=3, min_terms=2, max_terms=4, terms_pool=pool))
        fill = draw(st.lists(st.sampled_from([" ", "\n", "  ", "\t"]), min_size=1, max_size=3))
        return {"g": g, "lex": "L1", "layout": "ws", "fill": fill, "max_len": 4}
    return c()


def strat_l1_space(tier):
    """small pool of terminals that match across a space next to their one-token prefixes"""
    @st.composite
    def c(draw):
        # (parglare compiles regexes in verbose mode: an unescaped space would be ignored)
        pool = [("a", "str", "a"), ("asa", "re", r"a(\ a)?"), ("b", "str", "b"), ("bsp", "re", r"b(\ b)*"),
                ("ab", "re", r"a\ ?b")]
        g = draw(gen.cfgs(max_nts=2, max_alts=3, max_rhs=3, min_terms=2, max_terms=3, terms_pool=pool))
        fill = draw(st.lists(st.sampled_from([" ", "  ", "\n"]), min_size=1, max_size=2))
        return {"g": g, "lex": "L1", "layout": "ws", "fill": fill, "max_len": 4}
    return c()


def strat_chain(tier):
    return _case(gen.nullable_chain_cfgs(), "L0")


def enum_classics(tier):
    def it():
        for name, g in gen.CLASSICS.items():
            for layout, fill in (("ws", ["", " ", "\n ", ""]), ("comments", ["", "// c\n", " /* a /* b */ */ ", " "])):
                yield {"g": g, "lex": "L0", "layout": layout, "fill": fill,
                       "max_len": 5 if len(g["terms"]) <= 2 else 4}
    return it()


def enum_epsilon(tier):
    def it():
        for i, g in enumerate(gen.epsilon_family()):
            if i % (4 if tier == "quick" else 1):
                continue
            yield {"g": g, "lex": "L0", "layout": "ws", "fill": [" ", "", "\n"], "max_len": 4}
    return it()


SUBCHECKS = [
    SubCheck("classics", run_case, enumerate=enum_classics),
    SubCheck("epsilon-family", run_case, enumerate=enum_epsilon),
    SubCheck("random-L0", run_case, strategy=strat_l0, examples={"quick": 1600, "thorough": 16000}),
    SubCheck("random-L2-multichar", run_case, strategy=strat_l2, examples={"quick": 640, "thorough": 6400}),
    SubCheck("random-L1-overlapping", run_case, strategy=strat_l1, examples={"quick": 640, "thorough": 6400}),
    SubCheck("random-L1-tokens-across-layout", run_case, strategy=strat_l1_space,
             examples={"quick": 960, "thorough": 9600}),
    SubCheck("nullable-chain-family", run_case, strategy=strat_chain, examples={"quick": 640, "thorough": 6400}),
    SubCheck("d17-pinned-corpus", run_case, enumerate=enum_d17),
    SubCheck("objects-carry-node-positions", run_obj, strategy=strat_obj, examples={"quick": 640, "thorough": 6400}),
]


# thorough tier: coverage-guided campaigns (atheris) on the same run_case, see pv/fuzz.py
FUZZ = [("random-L0", 15000)]

def subcheck(name):
    return {s.name: s for s in SUBCHECKS}[name]
