"""C19 - string terminals match their literal text; KEYWORD adds whole-word
matching.  Oracles: inline-vs-declared differential and a reference scanner."""
import itertools
import re

from hypothesis import strategies as st

from .. import glrcore as G, pgl
from ..core import SubCheck

import parglare
from parglare.exceptions import SRConflicts, RRConflicts, GrammarError

RULE = ("case = (three string terminal texts of 1-4 characters over letters, digits, '_' and the punctuation "
        ". | + * ( ) [ ] \\ ' \" plus escapes, optional KEYWORD regex, identifier regex, ignore_case); grammar "
        "'S: t1 t2 | t3 ID' once with inline strings and once with declared terminals; every probe input (all "
        "concatenations of the texts / identifiers / spaces up to 4 pieces, plus glued and case-changed variants) is "
        "parsed by both LR parsers and compared with a reference scanner applying literal matching, the whole-word "
        "rule for keywords and the documented lexical disambiguation; non-trivial = text containing a "
        "non-alphanumeric character, or a keyword adjacent to a word character in the input; distinct by (texts, "
        "keyword, ignore_case, input)")
ASSUMPTIONS = [
    "KEYWORD regexes are chosen so that match and fullmatch coincide on the generated texts",
    "escape convention of string literals: backslash escapes the quote character (of either kind, whichever delimits the literal) and itself; \\n and \\t denote newline and tab",
]

ALPHA = list("abcxyzAB01_") + list(".|+*()[]\\'\"") + ["\n", "\t"]
KEYWORDS = [None, r"\w+", r"[a-z]+", r"[a-z+]+", r"[^ ]+"]
IDS = [r"\w+", r"[a-z]+", r"[a-z0-9_]+"]
RESERVED = {"EMPTY", "STOP"}
RULE_NAMES = {"S", "ID", "KEYWORD", "T1", "T2", "T3"}


def literal(text, quote="'", escape_both=False):
    out = text.replace("\\", "\\\\").replace(quote, "\\" + quote).replace("\n", "\\n").replace("\t", "\\t")
    if escape_both:
        # the quote of the other kind may be written escaped as well (it need not be)
        other = '"' if quote == "'" else "'"
        out = out.replace(other, "\\" + other)
    return quote + out + quote


def known_classes(text):
    """classes of finding D11 (by text predicate)"""
    out = set()
    if "." in text:
        out.add("D11a")     # inline@dot
    if re.search(r"\\[nt'\"\\\n\t]", text):
        out.add("D11b")     # escape@double-unescape: backslash followed by n, t, quote, backslash, new line or tab
    if text in RULE_NAMES:
        out.add("D11c")     # inline@rule-name
    if text in RESERVED:
        out.add("D11d")     # inline@reserved
    return out


def keyword_meta(text):
    """D12: the KEYWORD rewrite interpolates the raw text into a regex and uses
    \\b: wrong for texts with regex metacharacters or non-word first/last
    character"""
    return re.escape(text) != text or not re.match(r"\w", text[0]) or not re.match(r"\w", text[-1])


def grammars(case):
    t1, t2, t3 = case["texts"]
    q = case["quote"]
    kw = KEYWORDS[case["keyword"]]
    tail = "ID: /%s/;\n" % IDS[case["id"]] + ("KEYWORD: /%s/;\n" % kw if kw else "")
    eb = bool(case.get("escape_both"))
    inline = "S: %s %s | %s ID;\nterminals\n%s" % (literal(t1, q, eb), literal(t2, q, eb), literal(t3, q, eb), tail)
    names = {}
    decls = []
    for t in (t1, t2, t3):
        if t not in names:
            names[t] = "T%d" % (len(names) + 1)
            decls.append("%s: %s;" % (names[t], literal(t, q, eb)))
    declared = "S: %s %s | %s ID;\nterminals\n%s\n%s" % (names[t1], names[t2], names[t3], "\n".join(decls), tail)
    return inline, declared


class RefScanner:
    def __init__(self, case):
        self.case = case
        self.ic = case["ignore_case"]
        kw = KEYWORDS[case["keyword"]]
        self.kw = re.compile(kw, re.MULTILINE | (re.IGNORECASE if self.ic else 0)) if kw else None
        self.idre = re.compile(IDS[case["id"]], re.MULTILINE | (re.IGNORECASE if self.ic else 0))

    def is_keyword(self, text):
        if not self.kw:
            return False
        m = self.kw.match(text)
        return bool(m) and m.group() == text

    def match_str(self, text, inp, pos):
        seg = inp[pos:pos + len(text)]
        ok = seg.lower() == text.lower() if self.ic else seg == text
        if not ok:
            return 0
        if self.is_keyword(text):
            before = inp[pos - 1] if pos > 0 else " "
            after = inp[pos + len(text)] if pos + len(text) < len(inp) else " "
            if re.match(r"\w", before) or re.match(r"\w", after):
                return 0
        return len(text)

    def match_id(self, inp, pos):
        m = self.idre.match(inp, pos)
        return len(m.group()) if m and m.group() else 0

    def choose(self, expected, inp, pos):
        """documented lexical disambiguation: strings/keywords over regexes,
        then longest.  expected: list of ("str", text) / ("id",).
        -> (kind, text, length) | None | "ambiguous" """
        strs = [(len(e[1]), e) for e in expected if e[0] == "str" and self.match_str(e[1], inp, pos)]
        if strs:
            L = max(n for n, _ in strs)
            best = {e for n, e in strs if n == L}
            if len(best) > 1:
                return "ambiguous"
            e = next(iter(best))
            return ("str", e[1], L)
        if ("id",) in expected:
            n = self.match_id(inp, pos)
            if n:
                return ("id", inp[pos:pos + n], n)
        return None

    def parse(self, inp):
        """-> ("ok", [values]) | ("error", position) | ("ambiguous", position)"""
        t1, t2, t3 = self.case["texts"]

        def skip(p):
            while p < len(inp) and inp[p] in " \t\r\n":
                p += 1
            return p
        pos = skip(0)
        first = [("str", t1)] + ([("str", t3)] if t3 != t1 else [])
        c = self.choose(first, inp, pos)
        if c == "ambiguous":
            return ("ambiguous", pos)
        if c is None:
            return ("error", pos)
        vals = [c[1]]
        pos1 = skip(pos + c[2])
        # after the first token the LR state expects t2 (if it was t1) and/or ID (if it was t3)
        exp = []
        matched = c[1].lower() if self.ic else c[1]
        if matched == (t1.lower() if self.ic else t1):
            exp.append(("str", t2))
        if matched == (t3.lower() if self.ic else t3):
            exp.append(("id",))
        c2 = self.choose(exp, inp, pos1)
        if c2 == "ambiguous":
            return ("ambiguous", pos1)
        if c2 is None:
            return ("error", pos1)
        vals.append(c2[1])
        end = skip(pos1 + c2[2])
        if end != len(inp):
            return ("error", end)
        return ("ok", vals)


def probes(case):
    t1, t2, t3 = case["texts"]
    pieces = [t1, t2, t3, "ab", "x1", " ", "+", "a"]
    out = set()
    for n in range(0, 4):
        for w in itertools.product(pieces, repeat=n):
            s = "".join(w)
            if len(s) <= 10:
                out.add(s)
    for a, b in ((t1, t2), (t3, "ab"), (t3, "x1"), (t1, "ab")):
        out.add(a + " " + b)
        out.add(a + b)
        out.add(a + "  " + b + " ")
        out.add(a.upper() + " " + b)
        out.add(a.lower() + " " + b.upper())
        out.add("x" + a + " " + b)
        out.add(a + " " + b + "x")
    return sorted(out)


def lr_outcome(parser, inp):
    out = G.run_parse(parser, inp)
    if out.kind == "ok":
        v = out.value
        return ("ok", list(v) if isinstance(v, list) else [v])
    if out.kind == "syntax":
        return ("error", out.exc.location.start_position)
    if isinstance(out.exc, parglare.DisambiguationError):
        return ("ambiguous", out.exc.location.start_position)
    return ("other", repr(out.exc)[:200])


def run_case(case, ctx):
    texts = case["texts"]
    ic = case["ignore_case"]
    inline, declared = grammars(case)
    classes = set().union(*[known_classes(t) for t in texts])
    info0 = dict(inline_grammar=inline, declared_grammar=declared, ignore_case=ic)

    def build(text):
        try:
            g = pgl.Grammar.from_string(text, ignore_case=ic)
            return pgl.Parser(g), None
        except (SRConflicts, RRConflicts) as e:
            return None, ("conflicts", e)
        except GrammarError as e:
            return None, ("grammar-error", e)
        except Exception as e:
            return None, ("other", e)
    p_in, e_in = build(inline)
    p_de, e_de = build(declared)
    ctx.label("keyword:%s" % (KEYWORDS[case["keyword"]] or "none"))
    for c in sorted(classes):
        ctx.label("text-class:" + c)
    # strings equal up to case under ignore_case are (rightly) rejected
    if ic and len({t.lower() for t in texts}) < len(set(texts)):
        # (the inline form may already stumble over another text of the case, e.g. a text equal to a rule
        # name - whichever error it reports, the case is outside the domain once the declared form is rejected
        # for this reason and the inline form is rejected too)
        if e_in and e_de and "same string" in str(e_de[1]):
            ctx.label("out-of-domain:strings-equal-up-to-case")
            return
    # ---- (1) inline form succeeds iff declared form does ---------------------
    if (e_in is None) != (e_de is None):
        bad = e_in or e_de
        if classes and e_in is not None and e_de is None:
            for c in sorted(classes):
                ctx.known(c, "inline-form-rejected-but-declared-form-accepted", error=repr(bad[1])[:200], **info0)
            p_in = None
        elif "D11b" in classes:
            ctx.known("D11b", "escape-sequence-handling", error=repr(bad[1])[:200], **info0)
            return
        else:
            ctx.fail("inline-and-declared-forms-differ-at-construction",
                     inline_error=repr(e_in[1])[:200] if e_in else None,
                     declared_error=repr(e_de[1])[:200] if e_de else None, **info0)
    if e_de is not None:
        if e_de[0] == "conflicts":
            ctx.label("discarded:conflicts")
            return
        if "D11b" in classes:
            ctx.known("D11b", "escape-sequence-handling", error=repr(e_de[1])[:200], **info0)
            return
        ctx.fail("declared-form-rejected", error=repr(e_de[1])[:300], **info0)
    ref = RefScanner(case)
    kwtexts = [t for t in texts if ref.is_keyword(t)]
    d12 = any(keyword_meta(t) for t in kwtexts)
    interesting_text = any(not t.isalnum() for t in texts)
    for inp in probes(case):
        info = dict(input=inp, **info0)
        o_de = lr_outcome(p_de, inp)
        if p_in is not None:
            o_in = lr_outcome(p_in, inp)
            if o_in != o_de:
                if "D11b" in classes:
                    ctx.known("D11b", "inline-and-declared-parsers-differ", inline=repr(o_in)[:200],
                              declared=repr(o_de)[:200], **info)
                else:
                    ctx.fail("inline-and-declared-parsers-differ", inline=repr(o_in)[:200],
                             declared=repr(o_de)[:200], **info)
        # ---- (2) reference scanner ------------------------------------------
        want = ref.parse(inp)
        if want[0] == "ok":
            # values: string terminals return the grammar's spelling
            t1, t2, t3 = texts
            exp_vals = list(want[1])
        if o_de[0] == "other":
            ctx.fail("parser-raises-other-exception", error=o_de[1], **info)
        agree = (o_de[0] == want[0]) and (o_de[1] == want[1] if want[0] != "ok" else
                                          [str(x).lower() for x in o_de[1]] == [str(x).lower() for x in want[1]])
        if not agree:
            if "D11b" in classes:
                ctx.known("D11b", "scanner-differs-from-literal-matching", got=repr(o_de)[:200],
                          expected=repr(want)[:200], **info)
            elif d12:
                ctx.known("D12", "keyword-with-metacharacters", got=repr(o_de)[:200],
                          expected=repr(want)[:200], **info)
            else:
                ctx.fail("scanner-differs-from-literal-matching", got=repr(o_de)[:200],
                         expected=repr(want)[:200], keywords=kwtexts, **info)
        ctx.label("probes")
        glued = any(re.search(r"\w" + re.escape(k), inp) or re.search(re.escape(k) + r"\w", inp)
                    for k in kwtexts) if kwtexts else False
        if interesting_text or glued:
            ctx.nontrivial([texts, case["keyword"], ic, inp],
                           sample={"declared_grammar": declared, "input": inp, "outcome": repr(want)[:120],
                                   "keywords": kwtexts})


TEXT = st.lists(st.sampled_from(ALPHA), min_size=1, max_size=4).map("".join)
WORDY = st.sampled_from(["for", "to", "a", "ab", "x1", "c++", "a.b", "if", "S", "ID", "EMPTY", "+", "++", "(", "a_b",
                         "A", "AB", "a|b", "[a]", "a*", "\\", "'", '"', "a'b", "fo"])


@st.composite
def cases(draw):
    texts = [draw(st.one_of(TEXT, WORDY)) for _ in range(3)]
    return {"texts": texts, "quote": draw(st.sampled_from(["'", '"'])), "escape_both": draw(st.booleans()),
            "keyword": draw(st.integers(0, len(KEYWORDS) - 1)), "id": draw(st.integers(0, len(IDS) - 1)),
            "ignore_case": draw(st.integers(0, 3)) == 0}


def strat(tier):
    return cases()


def enum_single(tier):
    """every one-character text and a list of notable texts as t1, with fixed
    t2/t3, under every KEYWORD choice"""
    def it():
        notable = sorted(set(ALPHA) | {"for", "c++", "a.b", "a|b", "a*", "(a)", "[ab]", "a\\b", "it's", "S", "ID",
                                       "EMPTY", "STOP", "++", "a+", "\\n", "x.", ".x", "to"})
        for t in notable:
            for kw in range(len(KEYWORDS)):
                yield {"texts": [t, "to", "if"], "quote": "'", "keyword": kw, "id": 0, "ignore_case": False}
                yield {"texts": ["go", t, t], "quote": '"', "keyword": kw, "id": 1, "ignore_case": kw % 2 == 1}
    return it()


SUBCHECKS = [
    SubCheck("notable-texts", run_case, enumerate=enum_single),
    SubCheck("random-texts", run_case, strategy=strat, examples={"quick": 1600, "thorough": 20000}),
]


def subcheck(name):
    return {s.name: s for s in SUBCHECKS}[name]
