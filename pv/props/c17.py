"""C17 - with consume_input off, results parse sentence prefixes; GLR finds
them all.  Oracle: Earley prefix ends + derivation enumeration."""
from hypothesis import strategies as st

from .. import gen, glrcore as G, pgl, trees as T
from ..cfg import CFG
from ..core import SubCheck
from ..ref_chart import Chart, Lexicon, TooMany
from .c02 import nullable_goto_cycle

import parglare
from parglare.exceptions import SRConflicts, RRConflicts

RULE = ("case = (acyclic productive grammar, table, layout fillers); every token string up to 4-5 tokens (so every "
        "sentence followed by every continuation) is parsed with consume_input=False by GLR with "
        "lexical_disambiguation off and on and by LR where it constructs; non-trivial = input with >= 2 prefixes that "
        "are sentences, or a sentence prefix followed by a non-empty continuation; distinct by (grammar, table, input)")
ASSUMPTIONS = [
    "reference prefix analysis and derivation enumeration (pv/ref_chart.py)",
    "non-overlapping lexicon, so lexical disambiguation has nothing to decide between real tokens",
]


class PrefixChart(Chart):
    """sentence test relative to a prefix end: any node is an acceptable end"""


def check_lr_prefix_tree(t, cfg, chart):
    """valid derivation of input[:end of last leaf], which is a sentence"""
    prods = {(l, tuple(r)) for l, r in cfg.prods}
    if T.is_leaf(t) or t[0] != cfg.start:
        return "root is not the start symbol", None
    stack = [t]
    while stack:
        x = stack.pop()
        if T.is_leaf(x):
            continue
        lhs, rhs, kids = x
        if (lhs, rhs) not in prods or len(kids) != len(rhs):
            return "no production %s -> %s" % (lhs, " ".join(rhs)), None
        for s, k in zip(rhs, kids):
            if k[0] != s or T.is_leaf(k) == cfg.is_nt(s):
                return "child %s where %s expected" % (k[0], s), None
        stack.extend(kids)
    node = 0
    for (name, start, end) in T.canon_leaves(t):
        if not any(e == (name, start, end) for e in chart.edges.get(node, ())):
            return "leaf %s[%s:%s] is not a token of the input at node %d" % (name, start, end, node), None
        node = end
    return None, node


def run_case(case, ctx):
    cfg = CFG.from_json(case["g"])
    if cfg.is_cyclic():
        ctx.label("discarded:cyclic")
        return
    lex = Lexicon(cfg.terms)
    # terminal priorities cannot matter for a non-overlapping lexicon, so the
    # expected results do not depend on them (they exercise the scanner's
    # priority shortcuts next to the always-available STOP token)
    prios = case.get("prios") or []
    tmeta = {n: str(prios[i % len(prios)]) for i, n in enumerate(cfg.term_names)
             if prios and prios[i % len(prios)] != 10}
    text_g = cfg.to_parglare(term_meta=tmeta)
    tb = case["table"]
    parsers = []
    l1 = case.get("lex") == "L1"
    try:
        # overlapping lexicon: only GLR without lexical disambiguation is compared (what longest-match
        # tokenisation makes of an overlapping lexicon is not part of the reference)
        for ld in ((False,) if l1 else (False, True)):
            parsers.append(("GLR/lexdis=%s" % ld,
                            pgl.GLRParser(pgl.Grammar.from_string(text_g), tables=pgl.TABLES[tb],
                                          consume_input=False, lexical_disambiguation=ld), "glr"))
    except Exception as e:
        ctx.fail("glr-construction-raises", grammar=text_g, error=repr(e))
    try:
        if not l1:
            parsers.append(("LR", pgl.Parser(pgl.Grammar.from_string(text_g), tables=pgl.TABLES[tb],
                                             consume_input=False, build_tree=True), "lr"))
    except (SRConflicts, RRConflicts):
        pass
    d1 = nullable_goto_cycle(parsers[0][1].table, cfg.nullable())
    dead = set()
    if l1:
        inputs = [(k, t) for k, t in enumerate(G.char_inputs(case.get("alphabet", "ab "), case["max_len"]))]
    else:
        inputs = [(k, G.render(w, case["fill"], k)) for k, w in enumerate(G.l0_inputs(cfg, case["max_len"], junk_upto=2))]
    for k, text in inputs:
        chart = Chart(cfg, lex, text)
        ends = chart.sentence_prefix_ends()
        info = dict(grammar=text_g, table=tb, input=text)
        want = None
        try:
            total = sum(chart.sentence_count(end=e) for e in ends)
            if total <= 400:
                want = set()
                for e in ends:
                    want |= set(chart.sentence_trees(end=e, limit=4000))
        except TooMany:
            want = None
        if want is None and total > 20000:
            ctx.label("skipped: more than 20000 prefix derivations")
            continue
        for who, parser, cls in parsers:
            if who in dead:
                continue
            out = G.run_parse(parser, text, G.parse_budget(text, cfg)) if cls == "glr" \
                else G.run_parse_soft(parser, text, 0.5)
            if out.kind == "timeout":
                # LR with resolved conflicts may reduce forever (hidden left
                # recursion); termination is not C17's subject
                ctx.label("lr-slow-or-nonterminating (not claimed)")
                dead.add(who)
                continue
            if out.kind in ("other", "budget"):
                ctx.fail("raises-other-exception", parser=who, error=repr(out.exc), **info)
            if cls == "lr":
                if out.kind == "ok":
                    try:
                        t = T.canon(out.value)
                    except Exception as e:
                        ctx.fail("lr-result-is-not-a-tree", error=repr(e), **info)
                    why, node = check_lr_prefix_tree(t, cfg, chart)
                    if why:
                        ctx.fail("lr-prefix-tree-is-not-a-derivation", why=why, **info)
                    if node not in ends:
                        ctx.fail("lr-result-prefix-is-not-a-sentence", prefix_end=node,
                                 sentence_prefix_ends=ends, **info)
                    ctx.label("lr-prefix-results")
                continue
            # ---- GLR ---------------------------------------------------------
            if not ends:
                if out.kind == "ok":
                    ctx.fail("glr-accepts-although-no-prefix-is-a-sentence", parser=who, **info)
                ctx.label("no-sentence-prefix")
                continue
            lexdis = who.endswith("True")
            # Finding D10 (pinned by the suite): with lexical disambiguation
            # on, longest-match drops the empty STOP token whenever a real
            # token matches, so a sentence prefix that is followed by a
            # matching token is not reported.
            followed = {e for e in ends if chart.edges[e]}
            if out.kind == "syntax":
                if lexdis and followed == set(ends):
                    ctx.known("D10", "glr-rejects-although-a-prefix-is-a-sentence", parser=who, **info)
                    continue
                if d1:
                    ctx.known("D1", "glr-rejects-although-a-prefix-is-a-sentence", parser=who, **info)
                    continue
                ctx.fail("glr-rejects-although-a-prefix-is-a-sentence", parser=who,
                         sentence_prefix_ends=ends, **info)
            forest = out.value
            if want is None:
                ctx.label("count-only")
                n, loop = G.forest_len(forest)
                if not loop and n < total and lexdis and \
                        n >= sum(chart.sentence_count(end=e) for e in ends if e not in followed):
                    ctx.known("D10", "fewer-trees-than-prefix-derivations", parser=who, have=n, want=total, **info)
                elif loop or n < total:
                    if d1:
                        ctx.known("D1", "fewer-trees-than-prefix-derivations", parser=who, have=n, want=total, **info)
                    else:
                        ctx.fail("fewer-trees-than-prefix-derivations", parser=who, have=n, want=total, **info)
                continue
            try:
                got_list = T.expand(forest.result, limit=4000)
            except T.TooManyTrees:
                ctx.label("forest-too-big")
                continue
            except T.Cyclic as e:
                ctx.fail("forest-not-expandable", parser=who, error=repr(e), **info)
            got = set(got_list)
            missing = want - got
            extra = got - want
            if extra:
                ctx.fail("tree-that-is-no-derivation-of-a-sentence-prefix", parser=who,
                         tree=repr(sorted(extra, key=repr)[0]), **info)
            if missing and lexdis:
                # tolerate only trees of prefixes that are followed by a token
                ok_ends = [e for e in ends if e not in followed]
                strict = set()
                for e in ok_ends:
                    strict |= set(chart.sentence_trees(end=e, limit=4000))
                if not (missing & strict):
                    ctx.known("D10", "missing-prefix-derivation", parser=who, **info)
                    missing = set()
            if missing:
                m = sorted(missing, key=repr)[0]
                if d1:
                    ctx.known("D1", "missing-prefix-derivation", parser=who, missing=repr(m), **info)
                else:
                    ctx.fail("missing-prefix-derivation", parser=who, missing=repr(m),
                             have=len(got), want=len(want), sentence_prefix_ends=ends, **info)
            elif len(got_list) != len(got) and case.get("pin"):
                # pinned corpus of the D2 class in prefix mode: the recorded (len, distinct) is required
                # exactly, so that another cause of double packing is still reported
                from ..core import stable_hash
                key = stable_hash([case["g"], tb, who, text])
                now = [len(got_list), len(got)]
                rec = ctx.__dict__.get("_recording")
                if rec is not None:
                    rec[key] = now
                elif d2_pins().get(key) != now:
                    ctx.fail("behaviour-differs-from-recorded-finding", parser=who, recorded=d2_pins().get(key),
                             now=now, **info)
                else:
                    ctx.label("recorded D2 manifestation confirmed")
            elif len(got_list) != len(got):
                if T.duplicate_alternatives(forest.result):
                    ctx.known("D2", "derivation-packed-twice", parser=who, **info)
                else:
                    ctx.fail("derivation-present-more-than-once", parser=who, len=len(got_list),
                             distinct=len(got), **info)
            # every tree is the derivation of *its* prefix: its root ends where its last token ends (GLR may
            # place the end after the layout that follows, never beyond the next token)
            for i in range(min(len(got_list), 40)):
                tree = forest[i]
                last = 0
                stack = [tree]
                while stack:
                    x = stack.pop()
                    if x.is_term():
                        last = max(last, x.end_position)
                    else:
                        stack.extend(x.children)
                limit = last
                while limit < len(text) and text[limit] in " \t\r\n":
                    limit += 1
                if not (last <= tree.end_position <= limit):
                    ctx.fail("tree-root-does-not-span-its-own-prefix", parser=who, index=i, root_end=tree.end_position,
                             last_token_end=last, tree=tree.to_str()[:300], **info)
            ctx.label("glr-prefix-forests")
        if len(ends) >= 2 or (ends and max(ends) < max(chart.nodes)):
            ctx.nontrivial([case["g"], tb, text],
                           sample={"grammar": text_g, "table": tb, "input": text,
                                   "sentence_prefix_ends": ends,
                                   "derivations": len(want) if want is not None else "many"})


FILL = st.lists(st.sampled_from(["", " ", "\n", "  "]), min_size=2, max_size=5)


def strat_l1(tier):
    @st.composite
    def c(draw):
        g = draw(gen.cfgs(max_nts=3, max_alts=3, max_rhs=3, min_terms=2, max_terms=4,
                          terms_pool=gen.L1_TERMS).filter(gen.acyclic))
        return {"g": g, "table": draw(st.sampled_from(["LALR", "SLR"])), "lex": "L1", "alphabet": "ab ",
                "fill": [""], "prios": [10], "max_len": 5}
    return c()


def _case(gstrat):
    @st.composite
    def c(draw):
        g = draw(gstrat.filter(gen.acyclic))
        return {"g": g, "table": draw(st.sampled_from(["LALR", "SLR"])), "fill": draw(FILL),
                "prios": draw(st.lists(st.sampled_from([10, 10, 5, 15]), min_size=1, max_size=3)),
                "max_len": 5 if len(g["terms"]) <= 2 else 4}
    return c()


def strat_l0(tier):
    return _case(gen.cfgs(max_nts=3, max_alts=3, max_rhs=3))


_D2P = None


def d2_pins():
    global _D2P
    if _D2P is None:
        import json
        import os
        from .. import VERIF_DIR
        path = os.path.join(VERIF_DIR, "regress", "C17", "D2-prefix-pins.json")
        _D2P = json.load(open(path))["pins"] if os.path.exists(path) else {}
    return _D2P


def enum_d2(tier):
    """deterministic corpus for the D2 class in prefix mode"""
    def it():
        for name, g in gen.CLASSICS.items():
            for table in ("LALR", "SLR"):
                yield {"g": g, "table": table, "fill": [" "], "max_len": 5 if len(g["terms"]) <= 2 else 4, "pin": True}
        for i, g in enumerate(gen.tiny_grammars(1)):
            if i % 7 == 3:
                yield {"g": g, "table": "LALR" if i % 2 else "SLR", "fill": [" "], "max_len": 5, "pin": True}
    return it()


def enum_classics(tier):
    def it():
        for name, g in gen.CLASSICS.items():
            for table in ("LALR", "SLR"):
                yield {"g": g, "table": table, "fill": ["", " "], "max_len": 5 if len(g["terms"]) <= 2 else 4}
    return it()


def enum_tiny(tier):
    stride = 10 if tier == "quick" else 1

    def it():
        for i, g in enumerate(gen.tiny_grammars(1 if tier == "quick" else 2)):
            if i % stride:
                continue
            yield {"g": g, "table": "LALR" if (i // stride) % 2 else "SLR", "fill": ["", " "], "max_len": 5}
    return it()


def enum_epsilon(tier):
    def it():
        for i, g in enumerate(gen.epsilon_family()):
            if i % (3 if tier == "quick" else 1):
                continue
            yield {"g": g, "table": "LALR" if i % 2 else "SLR", "fill": [""], "max_len": 4}
    return it()


SUBCHECKS = [
    SubCheck("classics", run_case, enumerate=enum_classics),
    SubCheck("tiny-exhaustive", run_case, enumerate=enum_tiny),
    SubCheck("epsilon-family", run_case, enumerate=enum_epsilon),
    SubCheck("d2-prefix-pinned-corpus", run_case, enumerate=enum_d2),
    SubCheck("random-L0", run_case, strategy=strat_l0, examples={"quick": 1600, "thorough": 24000}),
    SubCheck("random-L1-overlapping", run_case, strategy=strat_l1, examples={"quick": 640, "thorough": 8000}),
]


# thorough tier: coverage-guided campaigns (atheris) on the same run_case, see pv/fuzz.py
FUZZ = [("random-L0", 15000)]

def subcheck(name):
    return {s.name: s for s in SUBCHECKS}[name]
