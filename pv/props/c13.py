"""C13 - repetition, optional, separator, group and greedy syntax mean what the
docs say.  Oracles: own expander of the sugar into plain BNF (R-sugar) ->
(a) reference derivations + evaluator on the token DAG, (b) parglare on the
expanded plain-BNF text."""
import itertools

from hypothesis import strategies as st

from .. import glrcore as G, pgl, trees as T
from ..cfg import CFG
from ..core import SubCheck
from ..ref_chart import Chart, Lexicon, TooMany
from .c02 import nullable_goto_cycle
from .c09 import conv

import parglare
from parglare.exceptions import SRConflicts, RRConflicts

RULE = ("case = (1-3 rules whose alternatives combine terminals / rules with ? * + , separators that are terminals or "
        "rules, nested parenthesised groups, repetition of groups, several uses of one base symbol with different "
        "operators); every token string up to 4-6 tokens is parsed by LR and GLR built from the sugared grammar and "
        "compared with (a) parglare on the documented plain-BNF expansion and (b) reference derivations of the "
        "expansion evaluated by the documented meaning (x+ list, x* list or [], x? value or None, separators dropped, "
        "group = anonymous rule); greedy family: sequences of repetitions with ! marks; non-trivial = grammar with >= 2 "
        "operator uses and an input exercising the empty or the >= 2 element case of a repetition; distinct by "
        "(grammar, input)")
ASSUMPTIONS = [
    "the built-in collect actions skip a non-first element whose result is None (a nullable element that matched nothing); the reference evaluator does the same",
    "the expander in pv/props/c13.py states the equivalences of docs/grammar_language.md (helper names x_opt, x_1[_sep], x_0[_sep]; @optional, @collect, @collect_sep; {nops} on x_0: x_1)",
    "comparisons never depend on the spelling of helper / group rule names",
    "user rules named like helpers are not generated (documented sharing by name)",
]

TERMS = ["a", "b", "c"]


# ------------------------------------------------------------------ model
def item_text(it):
    if it["kind"] == "group":
        body = " | ".join(" ".join(item_text(x) for x in seq) if seq else "EMPTY" for seq in it["alts"])
        s = "(%s)" % body
    else:
        s = it["sym"]
    if it["op"]:
        s += it["op"] + ("!" if it.get("greedy") else "")
        if it.get("sep"):
            s += "[%s]" % it["sep"]
    return s


def sugared_text(case):
    lines = []
    for r in case["rules"]:
        if r.get("action"):
            lines.append("@" + r["action"])      # applies to this rule, not to the rules generated for its groups
        lines.append("%s: %s;" % (r["name"], " | ".join(
            " ".join(item_text(x) for x in seq) if seq else "EMPTY" for seq in r["alts"])))
    lines.append("terminals")
    for t in case["terms"]:
        lines.append("%s: '%s';" % (t, t))
    return "\n".join(lines) + "\n"


class Expansion:
    """documented plain-BNF expansion"""

    def __init__(self, case):
        self.case = case
        self.prods = []          # (lhs, rhs tuple)
        self.nts = []
        self.kind = {}           # helper name -> ("+", sep) | ("*", sep) | ("?",) | ("group",)
        self.meta = {}           # production index -> meta text
        self.group_n = {}
        for r in case["rules"]:
            self._nt(r["name"])
        for r in case["rules"]:
            for seq in r["alts"]:
                self.prods.append((r["name"], tuple(self._item(r["name"], x) for x in seq)))

    def _nt(self, n):
        if n not in self.nts:
            self.nts.append(n)

    def _item(self, rule, it):
        if it["kind"] == "group":
            self.group_n[rule] = self.group_n.get(rule, 0) + 1
            base = "%s_g%d" % (rule, self.group_n[rule])
            while base in self.nts:      # spelling is irrelevant, uniqueness is not
                self.group_n[rule] += 1
                base = "%s_g%d" % (rule, self.group_n[rule])
            self._nt(base)
            self.kind[base] = ("group",)
            for seq in it["alts"]:
                self.prods.append((base, tuple(self._item(rule, x) for x in seq)))
        else:
            base = it["sym"]
        op = it["op"]
        if not op:
            return base
        sep = it.get("sep")
        suffix = "_" + sep if sep else ""
        if op == "?":
            h = base + "_opt"
            if h not in self.nts:
                self._nt(h)
                self.kind[h] = ("?",)
                self.prods.append((h, (base,)))
                self.prods.append((h, ()))
            return h
        h1 = "%s_1%s" % (base, suffix)
        if h1 not in self.nts:
            self._nt(h1)
            self.kind[h1] = ("+", sep)
            self.prods.append((h1, (h1, sep, base) if sep else (h1, base)))
            self.prods.append((h1, (base,)))
        if op == "+":
            return h1
        h0 = "%s_0%s" % (base, suffix)
        if h0 not in self.nts:
            self._nt(h0)
            self.kind[h0] = ("*", sep)
            self.meta[len(self.prods)] = "nops"
            self.prods.append((h0, (h1,)))
            self.prods.append((h0, ()))
        return h0

    def cfg(self):
        return CFG(self.nts, [(t, "str", t) for t in self.case["terms"]], self.prods)

    def text(self):
        """plain BNF in parglare syntax with the documented actions"""
        g = self.cfg()
        lines = []
        for n in g.nts:
            k = self.kind.get(n)
            if k and k[0] == "+":
                lines.append("@collect_sep" if k[1] else "@collect")
            elif k and k[0] == "?":
                lines.append("@optional")
            elif self.rule_action().get(n):
                lines.append("@" + self.rule_action()[n])
            alts = []
            for idx, r in g.by_lhs[n]:
                body = " ".join(r) if r else "EMPTY"
                if idx in self.meta:
                    body += " {%s}" % self.meta[idx]
                alts.append(body)
            lines.append("%s: %s;" % (n, " | ".join(alts)))
        lines.append("terminals")
        for t in self.case["terms"]:
            lines.append("%s: '%s';" % (t, t))
        return "\n".join(lines) + "\n"

    def rule_action(self):
        return {r["name"]: r.get("action") for r in self.case["rules"]}

    def actions(self):
        acts = {}
        for n, k in self.kind.items():
            if k[0] == "*":
                acts[n] = [lambda _, nodes: nodes[0], lambda _, nodes: []]
        return acts

    def evaluate(self, t, text):
        """documented meaning of a reference derivation (canonical tuple)"""
        if T.is_leaf(t):
            return text[t[1]:t[2]]
        lhs, rhs, kids = t
        sub = [self.evaluate(k, text) for k in kids]
        k = self.kind.get(lhs)
        if k and k[0] == "+":
            # the built-in collect actions skip an element whose result is
            # None (a nullable element that matched nothing) unless it is the first
            if len(sub) == 1:
                return (sub[0],)
            return tuple(sub[0]) + ((sub[-1],) if sub[-1] is not None else ())
        if k and k[0] == "*":
            return tuple(sub[0]) if sub else ()
        if k and k[0] == "?":
            return sub[0] if sub else None
        if self.rule_action().get(lhs) == "pass_single":
            return sub[0]          # parglare.actions.pass_single: the first sub-result
        return sub[0] if len(sub) == 1 else tuple(sub)


def abstract(t, user_rules):
    """canonical tree with helper / group rule names abstracted away"""
    if T.is_leaf(t):
        return t
    lhs, rhs, kids = t
    name = lhs if lhs in user_rules else "#"
    return (name, len(rhs), tuple(abstract(k, user_rules) for k in kids))


def uses_greedy(case):
    def walk(seq):
        for it in seq:
            if it.get("greedy"):
                return True
            if it["kind"] == "group" and any(walk(s) for s in it["alts"]):
                return True
        return False
    return any(walk(s) for r in case["rules"] for s in r["alts"])


def op_uses(case):
    n = [0]

    def walk(seq):
        for it in seq:
            if it["op"]:
                n[0] += 1
            if it["kind"] == "group":
                for s in it["alts"]:
                    walk(s)
    for r in case["rules"]:
        for s in r["alts"]:
            walk(s)
    return n[0]


def lr_outcome(parser, text):
    out = G.run_parse_soft(parser, text, 0.5)
    if out.kind == "ok":
        return ("ok", conv(out.value))
    if out.kind == "syntax":
        return ("error", out.exc.location.start_position)
    if out.kind == "timeout":
        return ("timeout",)
    return ("other", repr(out.exc)[:200])


def glr_results(parser, text, user_rules):
    out = G.run_parse(parser, text)
    if out.kind == "syntax":
        return ("error", out.exc.location.start_position)
    if out.kind != "ok":
        return ("other", repr(out.exc)[:200])
    n, loop = G.forest_len(out.value)
    if loop:
        return ("cyclic",)
    if n > 200:
        return ("many", n)
    vals = []
    shapes = []
    for i in range(n):
        tr = out.value[i]
        vals.append(repr(conv(parser.call_actions(tr))))
        shapes.append(repr(abstract(T.canon(tr), user_rules)))
    return ("ok", sorted(set(vals)), len(set(shapes)), sorted(set(shapes)))


def run_equiv(case, ctx):
    exp = Expansion(case)
    cfg = exp.cfg()
    if cfg.productive() != set(cfg.nts) or cfg.reachable() != set(cfg.nts):
        ctx.label("discarded:unproductive-or-unreachable")
        return
    text_s = sugared_text(case)
    text_e = exp.text()
    user_rules = {r["name"] for r in case["rules"]}
    info0 = dict(sugared=text_s, expansion=text_e)
    mk = pgl.Grammar.from_string
    lex = Lexicon(cfg.terms)
    cyclic = cfg.is_cyclic()
    # ---- LR: constructs iff the expansion does ---------------------------
    def build_lr(text, acts=None):
        try:
            return pgl.Parser(mk(text), actions=acts), None
        except (SRConflicts, RRConflicts) as e:
            return None, type(e).__name__
        except Exception as e:
            return None, repr(e)[:200]
    lr_s, err_s = build_lr(text_s)
    lr_e, err_e = build_lr(text_e, exp.actions())
    if (lr_s is None) != (lr_e is None) or (err_s != err_e and (err_s not in ("SRConflicts", "RRConflicts")
                                                                or err_e not in ("SRConflicts", "RRConflicts"))):
        ctx.fail("sugared-and-expanded-grammars-differ-at-lr-construction", sugared_error=err_s,
                 expansion_error=err_e, **info0)
    try:
        glr_s = pgl.GLRParser(mk(text_s))
        glr_e = pgl.GLRParser(mk(text_e), actions=exp.actions())
    except Exception as e:
        ctx.fail("glr-construction-raises", error=repr(e)[:300], **info0)
    d1 = nullable_goto_cycle(glr_s.table, cfg.nullable())
    nops = op_uses(case)
    ctx.label("grammars")
    ctx.label("lr-constructible" if lr_s is not None else "lr-conflicts")
    dead = False
    for n in range(0, case["max_len"] + 1):
        for w in itertools.product(case["terms"], repeat=n):
            text = " ".join(w)
            info = dict(input=text, **info0)
            # ---- (1) LR sugared == LR expansion --------------------------
            if lr_s is not None and not dead:
                a, b = lr_outcome(lr_s, text), lr_outcome(lr_e, text)
                if "timeout" in (a[0], b[0]):
                    dead = True
                elif a != b:
                    ctx.fail("lr-sugared-differs-from-expansion", sugared_result=repr(a)[:300],
                             expansion_result=repr(b)[:300], **info)
            # ---- (2) GLR sugared == GLR expansion ------------------------
            gs = glr_results(glr_s, text, user_rules)
            ge = glr_results(glr_e, text, user_rules)
            if gs[0] == "other" or ge[0] == "other":
                ctx.fail("glr-raises-other-exception", sugared_result=repr(gs)[:300],
                         expansion_result=repr(ge)[:300], **info)
            if gs[:3] != ge[:3] or (gs[0] == "ok" and gs[3] != ge[3]):
                ctx.fail("glr-sugared-differs-from-expansion", sugared_result=repr(gs[:3])[:400],
                         expansion_result=repr(ge[:3])[:400], **info)
            # ---- (3) reference derivations with the documented meaning ----
            chart = Chart(cfg, lex, text)
            member = chart.accepts()
            if (gs[0] != "error") != member:
                if member and d1:
                    ctx.known("D1", "sugared-glr-rejects-sentence-of-expansion", **info)
                    continue
                ctx.fail("sugared-language-differs-from-documented-expansion", member_of_expansion=member,
                         sugared_result=repr(gs[:2])[:200], **info)
            if member and gs[0] == "ok" and not cyclic:
                try:
                    if chart.sentence_count() <= 300:
                        want = sorted({repr(conv(exp.evaluate(t, text))) for t in chart.sentence_trees(limit=2000)})
                        got = gs[1]
                        if set(got) - set(want):
                            ctx.fail("sugared-result-not-a-documented-result", extra=sorted(set(got) - set(want))[:3],
                                     expected=want[:6], **info)
                        if set(want) - set(got):
                            if d1:
                                ctx.known("D1", "sugared-result-missing", **info)
                            else:
                                ctx.fail("documented-result-missing", missing=sorted(set(want) - set(got))[:3],
                                         got=got[:6], **info)
                        ctx.label("result-sets-compared-with-reference")
                except TooMany:
                    pass
            if member:
                ctx.label("sentences")
                if nops >= 2:
                    ctx.nontrivial([case["rules"], text],
                                   sample={"sugared": text_s, "input": text, "results": gs[1][:3] if gs[0] == "ok" else gs[0]})


_PINS = None


def greedy_pins():
    global _PINS
    if _PINS is None:
        import json, os
        from .. import VERIF_DIR
        path = os.path.join(VERIF_DIR, "regress", "C13", "greedy-pins.json")
        _PINS = json.load(open(path))["pins"] if os.path.exists(path) else {}
    return _PINS


def greedy_observation(ctx, case, text, now):
    """On the pinned corpus (all two-item greedy sequences) the recorded
    behaviour is required exactly, so that a change of the greedy mechanism is
    reported although findings D15/D16 tolerate its known defects."""
    from ..core import stable_hash
    if ctx.__dict__.get("_recording") is not None:
        ctx._recording[stable_hash([case["items"], text])] = now
        return
    pin = greedy_pins().get(stable_hash([case["items"], text]))
    if pin is not None:
        ctx.label("greedy-behaviour-compared-with-recorded")
        if pin != now:
            ctx.fail("greedy-behaviour-differs-from-recorded-finding", recorded=pin, now=now, input=text,
                     greedy_grammar=sugared_text({"rules": [{"name": "S", "alts": [[
                         {"kind": "sym", "sym": it["sym"], "op": it["op"], "sep": None, "greedy": it["greedy"]}
                         for it in case["items"]]]}], "terms": case["terms"]}))


# --------------------------------------------------------------- greedy family
def run_greedy(case, ctx):
    """S: e1 e2 [e3], each ei a repetition of a terminal; compares the greedy
    grammar with its non-greedy twin"""
    items = case["items"]      # [{sym, op, greedy}]
    seq = [{"kind": "sym", "sym": it["sym"], "op": it["op"], "sep": None, "greedy": it["greedy"]} for it in items]
    gcase = {"rules": [{"name": "S", "alts": [seq]}], "terms": case["terms"]}
    ncase = {"rules": [{"name": "S", "alts": [[dict(x, greedy=False) for x in seq]]}], "terms": case["terms"]}
    text_g, text_n = sugared_text(gcase), sugared_text(ncase)
    exp = Expansion(ncase)
    cfg = exp.cfg()
    lex = Lexicon(cfg.terms)
    info0 = dict(greedy_grammar=text_g, nongreedy_grammar=text_n)
    mk = pgl.Grammar.from_string
    try:
        glr_g = pgl.GLRParser(mk(text_g))
    except Exception as e:
        ctx.fail("greedy-grammar-construction-raises", error=repr(e)[:300], **info0)
    # D16: one helper shared by a greedy and a non-greedy use of the same operator on the same symbol
    uses = {}
    for it in items:
        key = (it["sym"], "rep" if it["op"] in "*+" else "?")
        uses.setdefault(key, set()).add(bool(it["greedy"]))
        if it["op"] == "*":
            uses.setdefault((it["sym"], "rep1"), set()).add(bool(it["greedy"]))
    d16 = any(len(v) > 1 for v in uses.values()) or \
        any(a["sym"] == b["sym"] and a["op"] in "*+" and b["op"] in "*+" and a["op"] != b["op"]
            and (a["greedy"] or b["greedy"]) for a in items for b in items)
    all_but_last_greedy = all(it["greedy"] for it in items[:-1])
    ctx.label("greedy-grammars")
    if d16:
        ctx.label("helper-shared-between-greedy-and-nongreedy (D16 class)")
    for n in range(0, case["max_len"] + 1):
        for w in itertools.product(case["terms"], repeat=n):
            text = " ".join(w)
            info = dict(input=text, **info0)
            chart = Chart(cfg, lex, text)
            member = chart.accepts()
            out = G.run_parse(glr_g, text)
            if out.kind == "other":
                ctx.fail("greedy-glr-raises-other-exception", error=repr(out.exc)[:200], **info)
            if not member:
                if out.kind == "ok":
                    ctx.fail("greedy-grammar-accepts-non-sentence-of-nongreedy-form", **info)
                continue
            # extent vectors of all reference derivations
            vecs = set()
            for t in chart.sentence_trees(limit=5000):
                v = exp.evaluate(t, text)
                v = v if len(items) > 1 else (v,)
                vecs.add(tuple(0 if x is None else (1 if isinstance(x, str) else len(x)) for x in v))
            best = max(vecs)
            # D15: parglare implements greediness as "never stop a greedy
            # repetition before a token its element can start with"
            def consistent(vec):
                pos = 0
                for it, k in zip(items, vec):
                    pos += k
                    if it["greedy"] and pos < len(w) and w[pos] == it["sym"] and \
                            (it["op"] != "?" or k == 0):
                        return False
                return True
            cons = {v for v in vecs if consistent(v)}
            if out.kind == "syntax":
                greedy_observation(ctx, case, text, "rejected")
                if d16:
                    ctx.known("D16", "greedy-form-rejects-sentence-of-nongreedy-form", **info)
                elif not cons:
                    ctx.known("D15", "greedy-form-rejects-sentence-of-nongreedy-form", **info)
                else:
                    ctx.known("D15", "greedy-form-rejects-sentence-of-nongreedy-form (shift wins over the empty "
                              "alternative of a greedy repetition)", **info)
                continue
            nt, loop = G.forest_len(out.value)
            got = set()
            for i in range(min(nt, 100)):
                v = conv(glr_g.call_actions(out.value[i]))
                v = v if len(items) > 1 else (v,)
                got.add(tuple(0 if x is None else (1 if isinstance(x, str) else len(x)) for x in v))
            greedy_observation(ctx, case, text, repr(sorted(got)))
            if not got <= vecs:
                ctx.fail("greedy-result-is-no-derivation-of-nongreedy-form", got=sorted(got), extents=sorted(vecs), **info)
            if all_but_last_greedy and len(items) > 1:
                if got != {best}:
                    if d16:
                        ctx.known("D16", "greedy-repetitions-do-not-give-the-single-maximal-tree", got=sorted(got),
                                  expected=list(best), **info)
                    elif best not in cons or len(got) == 1:
                        ctx.known("D15", "greedy-repetitions-do-not-give-the-single-maximal-tree", got=sorted(got),
                                  expected=list(best), **info)
                    else:
                        # several trees although every repetition but the last is greedy: the marks had no effect
                        ctx.fail("greedy-repetitions-do-not-give-the-single-maximal-tree", got=sorted(got),
                                 expected=list(best), **info)
                ctx.label("maximal-tree-checked")
            ctx.label("greedy-sentences")
            if len(vecs) >= 2:
                ctx.nontrivial([case["items"], text],
                               sample={"greedy_grammar": text_g, "input": text, "extents_of_derivations": sorted(vecs),
                                       "greedy_result": sorted(got)})


# ------------------------------------------------- greedy with a separator
def run_greedy_sep(case, ctx):
    """S: a<op>![sep] T<tail>;  T: sep a;   The non-greedy form is ambiguous only in how many of the trailing
    "sep a" pairs the list consumes, and both readings need an `a` after each separator, so greediness cannot cut
    the language here (outside D15's class); the helper of `a` is used once (outside D16's class).  The oracle is
    plain Python: the list takes every pair, T<tail> stays empty."""
    op, tail, sepkind = case["op"], case["tail"], case["sep"]
    sepname = {"terminal": "c", "rule": "Sep"}[sepkind]     # a separator is given by name (no inline strings)
    def text_of(greedy):
        return ("S: a%s%s[%s] T%s;\nT: %s a;\n%sterminals\na: 'a';\n%s" % (
            op, "!" if greedy else "", sepname, tail, sepname,
            "Sep: c;\n" if sepkind == "rule" else "", "c: ',';\n"))
    text_g, text_n = text_of(True), text_of(False)
    info0 = dict(greedy_grammar=text_g)
    try:
        glr_g = pgl.GLRParser(pgl.Grammar.from_string(text_g))
        glr_n = pgl.GLRParser(pgl.Grammar.from_string(text_n))
    except Exception as e:
        ctx.fail("greedy-grammar-construction-raises", error=repr(e)[:300], **info0)
    ctx.label("greedy-separator-grammars")
    pair = (",", "a")     # a one-child rule passes its child's result on
    for n in range(0, case["max_len"] + 1):
        for w in itertools.product(["a", ","], repeat=n):
            text = " ".join(w)
            info = dict(input=text, **info0)
            # reference: w = [a (, a)^k] (, a)^j
            toks = list(w)
            head = 0
            if toks[:1] == ["a"]:
                head = 1
            rest = toks[head:]
            pairs = len(rest) // 2
            shape_ok = len(rest) % 2 == 0 and all(rest[2 * i] == "," and rest[2 * i + 1] == "a" for i in range(pairs))
            if head == 0:
                member = shape_ok and op == "*" and (pairs <= 1 if tail == "?" else True)
                exp_trees = 1
                exp = ((), tuple(pair for _ in range(pairs)) if tail == "*" else (pair if pairs else None))
            else:
                member = shape_ok
                exp_trees = pairs + 1 if tail == "*" else min(pairs, 1) + 1
                exp = (tuple("a" for _ in range(pairs + 1)), () if tail == "*" else None)
            out_n = G.run_parse(glr_n, text)
            out = G.run_parse(glr_g, text)
            if out.kind == "other":
                ctx.fail("greedy-glr-raises-other-exception", error=repr(out.exc)[:200], **info)
            if not member:
                if out.kind == "ok":
                    ctx.fail("greedy-grammar-accepts-non-sentence-of-nongreedy-form", **info)
                continue
            if out.kind != "ok":
                ctx.fail("greedy-form-rejects-sentence-of-nongreedy-form", **info)
            # the twin pins the reference itself: the non-greedy form has one tree per split
            if out_n.kind != "ok" or G.forest_len(out_n.value)[0] != exp_trees:
                ctx.fail("nongreedy-separator-form-differs-from-reference", expected_trees=exp_trees,
                         got=repr(out_n.kind == "ok" and G.forest_len(out_n.value)[0]), nongreedy_grammar=text_n, **info)
            nt, loop = G.forest_len(out.value)
            got = sorted({repr(conv(glr_g.call_actions(out.value[i]))) for i in range(min(nt or 0, 50))})
            if got != [repr(conv(exp))]:
                ctx.fail("greedy-repetitions-do-not-give-the-single-maximal-tree", got=got, expected=repr(conv(exp)),
                         trees=nt, **info)
            ctx.label("greedy-separator-sentences")
            if exp_trees >= 2:
                ctx.nontrivial([op, tail, sepkind, text],
                               sample={"greedy_grammar": text_g, "input": text, "trees_of_nongreedy_form": exp_trees,
                                       "greedy_result": got[0]})


def enum_greedy_sep(tier):
    def it():
        for op in ("+", "*"):
            for tail in ("*", "?"):
                for sep in ("terminal", "rule"):
                    yield {"op": op, "tail": tail, "sep": sep, "max_len": 7 if tier == "quick" else 9}
    return it()


# ---------------------------------------------------------------- strategies
@st.composite
def sugar_cases(draw):
    nrules = draw(st.integers(1, 3))
    names = ["S", "A", "B"][:nrules]
    nterms = draw(st.integers(1, 3))
    terms = TERMS[:nterms]

    def item(depth):
        k = draw(st.integers(0, 9))
        if k == 0 and depth < 2:
            alts = [seq(depth + 1, 1) for _ in range(draw(st.integers(1, 2)))]
            it = {"kind": "group", "alts": alts}
        else:
            it = {"kind": "sym", "sym": draw(st.sampled_from(terms + names[1:] + terms))}
        it["op"] = draw(st.sampled_from(["", "", "?", "*", "+"]))
        it["sep"] = None
        it["greedy"] = False
        if it["op"] in ("*", "+") and draw(st.integers(0, 2)) == 0:
            cands = [t for t in terms if t != it.get("sym")] + ([names[-1]] if nrules > 1 else [])
            if cands:
                it["sep"] = draw(st.sampled_from(cands))
        return it

    def seq(depth, lo=0):
        return [item(depth) for _ in range(draw(st.integers(lo, 3)))]
    rules = []
    for i, n in enumerate(names):
        alts = [seq(0, 1 if i == 0 else 0) for _ in range(draw(st.integers(1, 2)))]
        rules.append({"name": n, "alts": alts})
        if i == 0 and draw(st.integers(0, 3)) == 0:
            rules[-1]["action"] = "pass_single"     # a built-in action named by a decorator (S has no empty alternative)
    return {"rules": rules, "terms": terms, "max_len": 5 if nterms <= 2 else 4}


def strat_sugar(tier):
    return sugar_cases()


@st.composite
def greedy_cases(draw):
    n = draw(st.integers(2, 3))
    nterms = draw(st.integers(1, 2))
    terms = TERMS[:nterms]
    items = []
    for i in range(n):
        items.append({"sym": draw(st.sampled_from(terms)), "op": draw(st.sampled_from(["*", "*", "+", "?"])),
                      "greedy": draw(st.integers(0, 3)) != 0 if i < n - 1 else draw(st.booleans())})
    return {"items": items, "terms": terms, "max_len": 6 if nterms == 1 else 5}


def strat_greedy(tier):
    return greedy_cases()


def enum_docs(tier):
    """the examples of docs/grammar_language.md"""
    def s(sym, op="", sep=None):
        return {"kind": "sym", "sym": sym, "op": op, "sep": sep, "greedy": False}

    def it():
        yield {"rules": [{"name": "S", "alts": [[s("a"), s("b", "?"), s("c", "?")]]}], "terms": ["a", "b", "c"], "max_len": 4}
        yield {"rules": [{"name": "S", "alts": [[s("a"), s("c", "+")]]}], "terms": ["a", "c"], "max_len": 5}
        yield {"rules": [{"name": "S", "alts": [[s("a"), s("c", "+", "b")]]}], "terms": ["a", "b", "c"], "max_len": 5}
        yield {"rules": [{"name": "S", "alts": [[s("a"), s("c", "*")]]}], "terms": ["a", "c"], "max_len": 5}
        yield {"rules": [{"name": "S", "alts": [[s("a"), s("c", "*", "b")]]}], "terms": ["a", "b", "c"], "max_len": 5}
        yield {"rules": [{"name": "S", "alts": [[s("a"), {"kind": "group", "alts": [[s("b", "*"), s("a")], [s("b")]],
                                                          "op": "", "sep": None, "greedy": False}]]}],
               "terms": ["a", "b"], "max_len": 5}
        yield {"rules": [{"name": "S", "alts": [[{"kind": "group", "alts": [[s("a"), s("b", "?")]], "op": "+",
                                                  "sep": "c", "greedy": False}]]}],
               "terms": ["a", "b", "c"], "max_len": 5}
        yield {"rules": [{"name": "S", "alts": [[s("a", "*"), s("a", "+"), s("a", "?")]]}], "terms": ["a"], "max_len": 5}
    return it()


def enum_greedy(tier):
    def it():
        for ops in itertools.product(["*", "+", "?"], repeat=2):
            for g1, g2 in itertools.product([True, False], repeat=2):
                for syms in (("a", "a"), ("a", "b"), ("b", "a")):
                    yield {"items": [{"sym": syms[0], "op": ops[0], "greedy": g1},
                                     {"sym": syms[1], "op": ops[1], "greedy": g2}],
                           "terms": ["a", "b"], "max_len": 5}
    return it()


SUBCHECKS = [
    SubCheck("documentation-examples", run_equiv, enumerate=enum_docs, shards={"quick": 8, "thorough": 8}),
    SubCheck("random-sugar", run_equiv, strategy=strat_sugar, examples={"quick": 1600, "thorough": 16000}),
    SubCheck("greedy-pairs-exhaustive", run_greedy, enumerate=enum_greedy),
    SubCheck("greedy-with-separator", run_greedy_sep, enumerate=enum_greedy_sep),
    SubCheck("random-greedy-sequences", run_greedy, strategy=strat_greedy, examples={"quick": 640, "thorough": 6400}),
]


# thorough tier: coverage-guided campaigns (atheris) on the same run_case, see pv/fuzz.py
FUZZ = [("random-sugar", 10000)]

def subcheck(name):
    return {s.name: s for s in SUBCHECKS}[name]
