"""C15 - parsers are reusable and grammars are not corrupted by building
parsers.  Histories of operations over one Grammar object and a pool of parser
instances; every parse and every build is compared with the same operation on
freshly built objects (thorough tier: in a fresh interpreter process)."""
import json
import os
import subprocess
import sys

from hypothesis import strategies as st

from .. import gen, glrcore as G, pgl, trees as T, VERIF_DIR, REPO_DIR
from ..cfg import CFG
from ..core import SubCheck
from .c08 import LAYOUT_RULES, LAYOUT_TERMS

import parglare
from parglare.exceptions import SRConflicts, RRConflicts, ParserInitError, GrammarError

RULE = ("case = (small grammar - random, or one that keeps two GLR heads in different states on one frontier -, optionally with a comment LAYOUT rule, optionally with an unproductive rule so that "
        "every build fails) + a history of 3-14 operations over one Grammar object: build Parser/GLRParser (LALR/SLR, "
        "with/without error recovery, strict builds that fail with conflicts) and parse (sentences, non-sentences, "
        "inputs on which a user action raises, inputs on which a recognizer raises before or after another head found its token, "
        "inputs with layout before the first token) on any parser built so far; every "
        "operation's outcome must equal the outcome of the same operation on freshly built objects; non-trivial = "
        "history with >= 1 failing parse or failed build before a compared parse (strong: a second parser built on the "
        "same grammar between two parses); distinct by (grammar, history)")
ASSUMPTIONS = [
    "all parsers of one history are built with the same actions (the property's precondition: actions live on the shared grammar symbols)",
    "quick tier: the fresh oracle lives in the same interpreter (shares module globals); the thorough tier repeats every operation on fresh objects in a fresh interpreter process",
]

BOOM_TERMINAL = "c"      # its action raises
BANG = "!"               # the custom recognizer raises on this character


def grammar_text(case):
    cfg = CFG.from_json(case["g"])
    # terminal "x" gets a custom recognizer (empty body)
    terms = [(n, "empty", "") if n == "x" else (n, k, v) for n, k, v in cfg.terms]
    cfg2 = CFG(cfg.nts, terms, cfg.prods)
    extra_rules = ""
    extra_terms = ""
    if case["layout"]:
        extra_rules, extra_terms = LAYOUT_RULES.strip(), LAYOUT_TERMS.strip()
    if case["unproductive"]:
        extra_rules += "\nQ: Q %s;" % cfg.term_names[0]
        # make it reachable
        text = cfg2.to_parglare(extra_rules=extra_rules, extra_terminals=extra_terms)
        first = text.split("\n", 1)
        return first[0].rstrip(";") + " | Q;\n" + first[1]
    return cfg2.to_parglare(extra_rules=extra_rules, extra_terminals=extra_terms)


EXCEPTIONS = {"RuntimeError": RuntimeError, "TypeError": TypeError, "ValueError": ValueError, "KeyError": KeyError,
              "IndexError": IndexError, "AttributeError": AttributeError, "AssertionError": AssertionError}


def make_x_recognizer(exc):
    def x_recognizer(input, pos):
        # raises on '!' and - so that a parse can be aborted while *another* head of the same frontier has
        # already found its token - on a terminal's text directly followed by '!' ("b!": 'b' matches there).
        # Which exception a user's code raises is the user's business (parglare itself dispatches on some).
        if input[pos] == BANG or input[pos + 1:pos + 2] == BANG:
            raise exc("recognizer boom")
        if input[pos] == "x":
            return "x"
    return x_recognizer


def make_grammar(text, has_x, exc=RuntimeError):
    return pgl.Grammar.from_string(text, recognizers={"x": make_x_recognizer(exc)} if has_x else None)


def make_actions(cfg, exc=RuntimeError):
    acts = {}
    for n in cfg.nts:
        def mk(name):
            def act(context, nodes):
                if name == cfg.start:
                    # custom parsing state: "if not given initialized to dict" for every parse, so the count
                    # of reductions of the start rule seen through context.extra starts at 1 in every parse
                    context.extra["count"] = context.extra.get("count", 0) + 1
                    return (name, tuple(nodes), context.extra["count"])
                return (name, tuple(nodes))
            return act
        acts[n] = mk(n)
    if BOOM_TERMINAL in cfg.term_names:
        def boom(context, value):
            raise exc("action boom")
        acts[BOOM_TERMINAL] = boom
    return acts


def build(grammar, spec, actions):
    cls = pgl.GLRParser if spec["cls"] == "GLR" else pgl.Parser
    kw = dict(tables=pgl.TABLES[spec["table"]], actions=actions)
    if spec["recovery"]:
        kw["error_recovery"] = True
    if spec["strict"] and cls is pgl.Parser:
        kw["prefer_shifts"] = False
        kw["prefer_shifts_over_empty"] = False
    try:
        return cls(grammar, **kw), ("built",)
    except (SRConflicts, RRConflicts, ParserInitError, GrammarError) as e:
        return None, ("build-fails", type(e).__name__)


def conv(v):
    if isinstance(v, (list, tuple)):
        return [conv(x) for x in v]
    return v


def parse_outcome(parser, spec, text, fresh=False):
    is_glr = spec["cls"] == "GLR"
    try:
        import pv.budget as budget
        with budget.watchdog(1.0):
            # the oracle passes the documented default explicitly: nothing a process has seen before can be in it
            r = parser.parse(text, extra={}) if fresh else parser.parse(text)
    except budget.WatchdogTimeout:
        return ("timeout",)
    except parglare.SyntaxError as e:
        return ("SyntaxError", e.location.start_position, sorted(s.name for s in e.symbols_expected))
    except Exception as e:
        return ("raises", type(e).__name__, str(e)[:80])
    errs = [(e.location.start_position, e.location.end_position) for e in (parser.errors or [])] \
        if hasattr(parser, "errors") else []
    if is_glr:
        n, loop = G.forest_len(r)
        if loop:
            return ("forest", "cyclic", errs)
        trees = [r[i].to_str() for i in range(min(n, 12))]
        vals = []
        try:
            vals = [repr(parser.call_actions(r[i])) for i in range(min(n, 3))]
        except Exception as e:
            vals = ["raises " + type(e).__name__]
        return ("forest", n if n < 10 ** 9 else str(n), trees, vals, errs)
    return ("result", conv(r), errs)


def interpret(case, fresh_each_time):
    """run the history; returns the list of outcomes.  With fresh_each_time
    every operation uses brand new Grammar / parser objects (the oracle)."""
    cfg = CFG.from_json(case["g"])
    text = grammar_text(case)
    has_x = "x" in cfg.term_names
    exc = EXCEPTIONS[case.get("exc", "RuntimeError")]
    inputs = case["inputs"]
    outcomes = []
    grammar = None
    parsers = []       # (parser or None, spec)
    for op in case["ops"]:
        if op["op"] == "build":
            spec = op["spec"]
            if fresh_each_time:
                g = make_grammar(text, has_x, exc)
            else:
                if grammar is None:
                    grammar = make_grammar(text, has_x, exc)
                g = grammar
            p, out = build(g, spec, make_actions(cfg, exc))
            parsers.append((p, spec))
            outcomes.append(out)
        else:
            live = [(p, s) for p, s in parsers if p is not None or fresh_each_time]
            if not parsers:
                outcomes.append(("no-parser",))
                continue
            p, spec = parsers[op["parser"] % len(parsers)]
            if fresh_each_time:
                p, _ = build(make_grammar(text, has_x, exc), spec, make_actions(cfg, exc))
            if p is None:
                outcomes.append(("no-parser",))
                continue
            outcomes.append(parse_outcome(p, spec, inputs[op["input"] % len(inputs)], fresh=fresh_each_time))
    return outcomes


def run_case(case, ctx):
    with_history = interpret(case, fresh_each_time=False)
    fresh = interpret(case, fresh_each_time=True)
    info = dict(grammar=grammar_text(case), inputs=case["inputs"])
    seen_failure = False
    builds = 0
    strong = False
    compared = 0
    for i, (op, a, b) in enumerate(zip(case["ops"], with_history, fresh)):
        if "timeout" in (a[0], b[0]):
            ctx.label("lr-slow-or-nonterminating (skipped)")
            continue
        if a != b:
            ctx.fail("outcome-depends-on-history", step=i, operation=op, with_history=repr(a)[:400],
                     fresh=repr(b)[:400], history=case["ops"][:i + 1], **info)
        if op["op"] == "build":
            builds += 1
            if a[0] == "build-fails":
                seen_failure = True
        else:
            compared += 1
            if builds >= 2 and compared >= 2:
                strong = True
            if a[0] in ("SyntaxError", "raises"):
                seen_failure = True
    ctx.label("histories")
    if seen_failure:
        ctx.label("history-with-failure")
    if strong:
        ctx.label("second-parser-between-parses")
    if case["layout"]:
        ctx.label("with-LAYOUT-rule")
    if case["unproductive"]:
        ctx.label("every-build-fails")
    if ctx.tier == "thorough" and case.get("subprocess", True):
        sub = run_in_subprocess(case)
        if sub != json.loads(json.dumps(with_history)):
            for i, (a, b) in enumerate(zip(with_history, sub)):
                if json.loads(json.dumps(a)) != b and "timeout" not in (a[0], b[0]):
                    ctx.fail("outcome-differs-from-fresh-process", step=i, operation=case["ops"][i],
                             with_history=repr(a)[:400], fresh_process=repr(b)[:400], **info)
        ctx.label("compared-with-fresh-process")
    if seen_failure and compared:
        ctx.nontrivial([case["g"], case["layout"], case["ops"], case["inputs"]],
                       sample={"grammar": info["grammar"], "inputs": case["inputs"], "history": case["ops"],
                               "outcomes": [repr(x)[:80] for x in with_history]})


def run_in_subprocess(case):
    env = dict(os.environ)
    env["PYTHONPATH"] = REPO_DIR + os.pathsep + VERIF_DIR
    p = subprocess.run([sys.executable, "-m", "pv.props.c15"], input=json.dumps(case), env=env,
                       capture_output=True, text=True, timeout=300, cwd=VERIF_DIR)
    if p.returncode != 0:
        raise RuntimeError("oracle process failed: %s" % p.stderr[-1500:])
    return json.loads(p.stdout)


# ---------------------------------------------------------------- strategies
SPEC = st.fixed_dictionaries({"cls": st.sampled_from(["LR", "LR", "GLR"]), "table": st.sampled_from(["LALR", "SLR"]),
                              "recovery": st.booleans(), "strict": st.integers(0, 3).map(lambda x: x == 0)})


# grammars in which two GLR heads of one frontier sit in different states expecting different terminals
# (the place where a parse aborted half-way through a frontier leaves something behind)
SPLIT_HEADS = [
    {"nts": ["S", "A", "B", "C", "D"],
     "prods": [["S", ["A", "C"]], ["S", ["B", "D"]], ["A", ["{2}"]], ["B", ["{2}"]], ["C", ["{2}", "{0}"]],
               ["D", ["{2}", "{1}"]]]},
    {"nts": ["S", "A", "B", "C", "D"],
     "prods": [["S", ["S", "S"]], ["S", ["A", "C"]], ["S", ["B", "D"]], ["A", ["{2}"]], ["B", ["{2}"]],
               ["C", ["{2}", "{0}"]], ["D", ["{2}", "{1}"]], ["D", ["{2}", "{2}"]]]},
    {"nts": ["S", "A", "B", "C", "D"],
     "prods": [["S", ["A", "C"]], ["S", ["B", "D"]], ["A", ["A", "{2}"]], ["A", []], ["B", ["B", "{2}"]], ["B", []],
               ["C", ["{0}"]], ["D", ["{1}"]]]},
]


@st.composite
def cases(draw):
    pool = [("a", "str", "a"), ("b", "str", "b"), ("c", "str", "c"), ("x", "str", "x")]
    split = draw(st.integers(0, 3)) == 0
    if split:
        tpl = draw(st.sampled_from(SPLIT_HEADS))
        others = draw(st.permutations(["a", "b", "c"]))
        # one of the two competing terminals is the one with the raising recognizer
        names = ["x", others[0], others[1]] if draw(st.booleans()) else [others[0], "x", others[1]]
        g = {"nts": tpl["nts"], "terms": [list(t) for t in pool if t[0] in names],
             "prods": [[lhs, [sym.format(*names) if sym.startswith("{") else sym for sym in rhs]]
                       for lhs, rhs in tpl["prods"]]}
    else:
        g = draw(gen.cfgs(max_nts=3, max_alts=3, max_rhs=3, min_terms=2, max_terms=3, terms_pool=pool))
    tn = [t[0] for t in g["terms"]]
    tok = st.sampled_from(tn + tn + [BANG, "#"] + [t + BANG for t in tn if t != "x"])
    # layout before the first token as well: what a parse leaves behind about position 0 matters
    lead = st.sampled_from(["", "", "", " ", "  ", "\t", "\n", "// c\n", " /* c */ "])
    inputs = [draw(lead) + " ".join(draw(st.lists(tok, min_size=0, max_size=5))) for _ in range(4)]
    inputs.append(draw(lead) + " ".join(tn))
    inputs.append(tn[0] + " // cm\n " + tn[-1])
    if split:
        # the head expecting the plain terminal finds it, the recognizer of the other head raises
        plain = [n for n in names[:2] if n != "x"][0]
        inputs[0] = "%s %s %s!" % (names[2], names[2], plain)
        inputs[1] = "%s %s %s" % (names[2], names[2], draw(st.sampled_from([plain, "x"])))
        inputs[2] = "%s %s!" % (names[2], plain)
    ops = [{"op": "build", "spec": draw(SPEC)}]
    for _ in range(draw(st.integers(2, 13))):
        if draw(st.integers(0, 3)) == 0:
            ops.append({"op": "build", "spec": draw(SPEC)})
        else:
            ops.append({"op": "parse", "parser": draw(st.integers(0, 5)), "input": draw(st.integers(0, 5))})
    return {"g": g, "layout": draw(st.integers(0, 2)) == 0, "unproductive": draw(st.integers(0, 7)) == 0,
            "exc": draw(st.sampled_from(["RuntimeError", "RuntimeError"] + sorted(EXCEPTIONS))),
            "inputs": inputs, "ops": ops}


def strat(tier):
    return cases()


SUBCHECKS = [
    SubCheck("histories", run_case, strategy=strat, examples={"quick": 2400, "thorough": 4000}),
]


def subcheck(name):
    return {s.name: s for s in SUBCHECKS}[name]


if __name__ == "__main__":
    # oracle process: every operation on fresh objects in this fresh interpreter
    import contextlib
    import io
    case = json.load(sys.stdin)
    with contextlib.redirect_stdout(io.StringIO()), contextlib.redirect_stderr(io.StringIO()):
        out = interpret(case, fresh_each_time=True)
    sys.__stdout__.write(json.dumps(out))
