"""C10 - rejections are always reported as SyntaxError at the first offending
token.  Oracle: Earley prefix analysis on the token DAG (pv.ref_chart)."""
from hypothesis import strategies as st

from .. import gen, glrcore as G, pgl
from ..cfg import CFG
from ..core import SubCheck
from ..ref_chart import Chart, Lexicon

import parglare
from parglare.exceptions import SRConflicts, RRConflicts

RULE = ("case = (productive grammar, lexicon L0 single-character | L2 multi-character regex | list input with custom "
        "recognizers | L1 overlapping, layout fillers incl. newlines and trailing layout); every non-sentence among "
        "all token strings up to 4-5 tokens (+ junk characters, + the empty input) is parsed by GLR (LALR and SLR), by "
        "the deterministic-class LR parser when it exists and by the default prefer-shifts LR parser; non-trivial = "
        "non-sentence whose viable prefix has >= 1 token or whose error position is preceded by layout; distinct by "
        "(grammar, input)")
ASSUMPTIONS = [
    "reference Earley prefix analysis (pv/ref_chart.py) is exact because all non-terminals are productive",
    "presence of the pseudo terminal STOP in symbols_expected is not asserted; LR's symbols_expected is not compared",
]

L2_TEXT = {"num": "12", "id": "ab", "p": "+", "q": ";", "kw": "=>"}
JUNKS = ["#", "\x0c", " ", "\x85", "\x1c"]
FILLERS = ["", " ", "\n", " \n", "\r\n", "\t", "\n\n ", "  "]


def render_tokens(tokens, fill, k, l2):
    n = len(fill)
    out = [fill[k % n]]
    prev = None
    for i, t in enumerate(tokens):
        out.append(t)
        f = fill[(i + 1 + k) % n]
        if l2 and f == "" and i + 1 < len(tokens) and t[-1].isalnum() and tokens[i + 1][0].isalnum():
            f = " "
        out.append(f)
    return "".join(out)


def list_recognizer(value, with_context=False):
    def rec(input, pos):
        # documented style for non-textual input: the parser only calls
        # recognizers inside the input
        if input[pos] == value:
            return input[pos:pos + 1]
    if with_context:
        # the other documented call signature: the parsing context comes first
        return lambda context, input, pos: rec(input, pos)
    return rec


def check_error(ctx, e, text, want_pos, who, info, offsets, plain_text=True):
    loc = e.location
    pos = loc.start_position
    if pos != want_pos:
        ctx.fail("wrong-error-position", parser=who, reported=pos, expected=want_pos, **info)
    try:
        s = str(e)
        r = repr(loc)
        _ = e.full_message
    except Exception as ex:
        ctx.fail("error-rendering-raises", parser=who, error=repr(ex), **info)
    eof = pos == len(text)
    if ("end of file" in s) != eof:
        ctx.fail("end-of-file-message-mismatch", parser=who, position=pos, length=len(text), message=s[:200], **info)
    line, col = loc.line, loc.column
    if plain_text:
        pl, pc = parglare.pos_to_line_col(text, pos)
        if (line, col) != (pl, pc):
            ctx.fail("line-column-differs-from-pos_to_line_col", parser=who, reported=[line, col],
                     public=[pl, pc], **info)
        if line != text[:pos].count("\n") + 1:
            ctx.fail("wrong-line", parser=who, line=line, position=pos, **info)
        line_start = text.rfind("\n", 0, pos) + 1
        offsets.add(col - (pos - line_start))
        if len(offsets) > 1 or not offsets <= {0, 1}:
            ctx.fail("inconsistent-column-base", parser=who, offsets=sorted(offsets), **info)


def run_case(case, ctx):
    cfg = CFG.from_json(case["g"])
    mode = case["mode"]
    text_g = cfg.to_parglare()
    offsets = set()
    if mode == "list":
        # terminals with empty bodies + custom recognizers over a list of ints
        vals = {name: i + 1 for i, name in enumerate(cfg.term_names)}
        gl = CFG(cfg.nts, [(n, "empty", "") for n in cfg.term_names], cfg.prods).to_parglare()
        recs = {n: list_recognizer(v, with_context=bool((case.get("ctxrec", 0) >> (v % 3)) & 1)) for n, v in vals.items()}
        text_g = gl
        mk = lambda: pgl.Grammar.from_string(gl, recognizers=recs)  # noqa: E731
        kw = dict(ws=None)
        refcfg = CFG(cfg.nts, [(n, "str", str(vals[n])) for n in cfg.term_names], cfg.prods)
        lex = Lexicon(refcfg.terms, ws="")
        toks = [str(v) for v in vals.values()]
        words = [w for w in G.l0_inputs(refcfg, case["max_len"], junk_upto=0)]
        words += [w[:i] + ["9"] + w[i:] for w in words if len(w) <= 2 for i in range(len(w) + 1)]
        inputs = [("".join(w), [int(x) for x in w]) for w in words]
    else:
        mk = lambda: pgl.Grammar.from_string(text_g)  # noqa: E731
        kw = {}
        refcfg = cfg
        lex = Lexicon(cfg.terms)
        if case.get("ws") and mode in ("L0", "L2"):
            # a line-oriented language: the new line is not layout, so it is an offending character itself
            kw = {"ws": case["ws"]}
            lex = Lexicon(cfg.terms, ws=case["ws"])
        l2 = mode == "L2"
        if mode == "L1":
            inputs = [(s, s) for s in G.char_inputs("ab", case["max_len"])]
        else:
            tt = [L2_TEXT[n] if l2 else v for n, k_, v in cfg.terms]
            words = []
            import itertools
            for n in range(0, case["max_len"] + 1):
                words.extend(list(w) for w in itertools.product(tt, repeat=n))
            jk = case["junk"]
            words += [w[:i] + [jk] + w[i:] for w in list(words) if len(w) <= 2 for i in range(len(w) + 1)]
            inputs = []
            for k, w in enumerate(words):
                t = render_tokens(w, case["fill"], k, l2)
                inputs.append((t, t))
            inputs.append(("", ""))
    # ---- parsers -----------------------------------------------------------
    parsers = []
    try:
        for tb in ("LALR", "SLR"):
            parsers.append(("GLR/" + tb, pgl.GLRParser(mk(), tables=pgl.TABLES[tb], **kw), "glr"))
    except Exception as e:
        ctx.fail("glr-construction-raises", grammar=text_g, error=repr(e))
    for tb in ("LALR", "SLR"):
        try:
            p = pgl.Parser(mk(), tables=pgl.TABLES[tb], prefer_shifts=False,
                           prefer_shifts_over_empty=False, **kw)
            if pgl.deterministic_table(p.table) and mode != "L1":
                parsers.append(("LR-deterministic/" + tb, p, "det"))
                ctx.label("deterministic-lr-parsers")
        except (SRConflicts, RRConflicts):
            pass
        try:
            p = pgl.Parser(mk(), tables=pgl.TABLES[tb], **kw)
            parsers.append(("LR-default/" + tb, p, "resolved"))
        except (SRConflicts, RRConflicts):
            pass
    ctx.label("mode:" + mode)
    dead = set()
    for text, inp in inputs:
        chart = Chart(refcfg, lex, text)
        if chart.accepts():
            continue
        info = dict(grammar=text_g, input=inp)
        exact = mode != "L1"
        if exact:
            want_pos, want_exp, depth, node = chart.error_analysis()
        for who, parser, cls in parsers:
            if who in dead:
                continue
            if cls == "glr":
                out = G.run_parse(parser, inp, G.parse_budget(text, cfg))
                if out.kind == "budget":
                    ctx.fail("glr-parse-does-not-terminate", parser=who, **info)
            else:
                out = G.run_parse_soft(parser, inp, 0.5)
                if out.kind == "timeout":
                    if cls == "det":
                        # decide deterministically
                        out = G.run_parse(parser, inp, G.parse_budget(text, cfg), soft_timeout=0.01)
                        if out.kind == "budget":
                            ctx.fail("deterministic-lr-parse-does-not-terminate", parser=who, **info)
                    else:
                        ctx.label("resolved-lr-slow-or-nonterminating (not claimed)")
                        dead.add(who)
                        continue
            if out.kind == "ok":
                if cls == "resolved" or mode == "L1":
                    ctx.label("accepted-by-resolved-lr-or-L1 (C04's subject)")
                    continue
                ctx.fail("non-sentence-accepted", parser=who, **info)
            if out.kind == "other":
                e = out.exc
                if isinstance(e, parglare.DisambiguationError) and mode == "L1" and cls != "glr":
                    ctx.label("disambiguation-errors")
                    toks = e.tokens
                    p0 = e.location.start_position
                    for t in toks:
                        if t.position != p0:
                            ctx.fail("disambiguation-error-not-at-ambiguous-token", parser=who,
                                     reported=p0, token_position=t.position, **info)
                        if text[t.position:t.position + len(t.value)] != t.value:
                            ctx.fail("disambiguation-error-token-not-in-input", parser=who, **info)
                    if len(toks) < 2:
                        ctx.fail("disambiguation-error-with-one-token", parser=who, **info)
                    try:
                        str(e)
                    except Exception as ex:
                        ctx.fail("error-rendering-raises", parser=who, error=repr(ex), **info)
                    ctx.nontrivial([case["g"], text, who, "disamb"])
                    continue
                ctx.fail("rejection-raises-other-exception", parser=who, error=repr(e), **info)
            # SyntaxError
            e = out.exc
            ctx.label("syntax-errors")
            if not exact or cls == "resolved":
                # only: renders, in-bounds position
                try:
                    str(e)
                    repr(e.location)
                except Exception as ex:
                    ctx.fail("error-rendering-raises", parser=who, error=repr(ex), **info)
                p0 = e.location.start_position
                if not (isinstance(p0, int) and 0 <= p0 <= len(text)):
                    ctx.fail("error-position-out-of-bounds", parser=who, reported=p0, **info)
                continue
            check_error(ctx, e, text, want_pos, who, info, offsets, plain_text=(mode != "list"))
            if cls == "glr":
                got = {s.name for s in e.symbols_expected} - {"STOP"}
                if got != want_exp - {"STOP"}:
                    ctx.fail("glr-symbols-expected-not-exact", parser=who, reported=sorted(got),
                             expected=sorted(want_exp - {"STOP"}), **info)
        if exact and (depth >= 1 or (want_pos > 0)):
            ctx.nontrivial([case["g"], text],
                           sample={"grammar": text_g, "input": inp, "error_position": want_pos,
                                   "expected": sorted(want_exp), "viable_prefix_tokens": depth})


FILL = st.lists(st.sampled_from(FILLERS), min_size=3, max_size=6)


def _case(gstrat, mode):
    @st.composite
    def c(draw):
        g = draw(gstrat)
        nterm = len(g["terms"])
        return {"g": g, "mode": mode, "fill": draw(FILL), "junk": draw(st.sampled_from(JUNKS)),
                "ws": draw(st.sampled_from([None, None, " \t"])), "ctxrec": draw(st.integers(0, 7)),
                "max_len": (5 if nterm <= 2 else 4) if mode != "L1" else 5}
    return c()


def strat_l0(tier):
    return _case(gen.cfgs(max_nts=3, max_alts=3, max_rhs=3), "L0")


def strat_l2(tier):
    return _case(gen.cfgs(max_nts=3, max_alts=3, max_rhs=3, min_terms=2, max_terms=3,
                          terms_pool=gen.L2_TERMS), "L2")


def strat_list(tier):
    return _case(gen.cfgs(max_nts=3, max_alts=3, max_rhs=3), "list")


def strat_l1(tier):
    return _case(gen.cfgs(max_nts=3, max_alts=3, max_rhs=3, min_terms=2, max_terms=4,
                          terms_pool=gen.L1_TERMS), "L1")


def enum_classics(tier):
    def it():
        for name, g in gen.CLASSICS.items():
            for mode in ("L0", "list"):
                yield {"g": g, "mode": mode, "fill": ["", " ", "\n", " \n"], "junk": "#",
                       "max_len": 5 if len(g["terms"]) <= 2 else 4}
    return it()


def enum_tiny(tier):
    stride = 12 if tier == "quick" else 1

    def it():
        for i, g in enumerate(gen.tiny_grammars(1 if tier == "quick" else 2)):
            if i % stride:
                continue
            yield {"g": g, "mode": "L0", "fill": ["", " ", "\n"], "junk": "#", "max_len": 5}
    return it()


SUBCHECKS = [
    SubCheck("classics", run_case, enumerate=enum_classics),
    SubCheck("tiny-exhaustive", run_case, enumerate=enum_tiny),
    SubCheck("random-L0", run_case, strategy=strat_l0, examples={"quick": 1600, "thorough": 16000}),
    SubCheck("random-L2-multichar", run_case, strategy=strat_l2, examples={"quick": 640, "thorough": 6400}),
    SubCheck("random-list-input", run_case, strategy=strat_list, examples={"quick": 640, "thorough": 6400}),
    SubCheck("random-L1-disambiguation", run_case, strategy=strat_l1, examples={"quick": 480, "thorough": 4800}),
]


# thorough tier: coverage-guided campaigns (atheris) on the same run_case, see pv/fuzz.py
FUZZ = [("random-L0", 15000)]

def subcheck(name):
    return {s.name: s for s in SUBCHECKS}[name]
