"""C02 - the GLR forest contains every derivation of the input.
Oracle: exhaustive derivation enumeration on the token DAG (pv.ref_chart)."""
from hypothesis import strategies as st

from .. import gen, glrcore as G, pgl, trees as T
from ..cfg import CFG
from ..core import SubCheck
from ..ref_chart import Chart, Lexicon, TooMany

RULE = ("case = (acyclic productive grammar biased to nullable / hidden-recursive shapes, table LALR|SLR, lexicon "
        "L0|L1); per case every sentence among all token strings up to 5-6 tokens is parsed with default GLR "
        "settings and the set of trees expanded from the forest is compared with the set of all reference "
        "derivations; non-trivial = sentence with >= 2 reference derivations, or with >= 2 tokens in a nullable / "
        "hidden-left-recursive grammar; distinct by (grammar, table, input)")
ASSUMPTIONS = [
    "reference derivation enumerator (pv/ref_chart.py) is correct and complete for acyclic grammars",
    "no priorities, associativities or filters in the generated grammars (the property's precondition)",
]


_PINS = None


def pins():
    """recorded manifestation of known finding D1 on the pinned corpus"""
    global _PINS
    if _PINS is None:
        import json, os
        from .. import VERIF_DIR
        path = os.path.join(VERIF_DIR, "regress", "C02", "D1-pins.json")
        data = json.load(open(path)) if os.path.exists(path) else {"pins": {}, "clean": []}
        _PINS = (data["pins"], set(data["clean"]))
    return _PINS


def d1_known(ctx, case, text, kind, **details):
    """finding D1 with the pinned-corpus comparison: on corpus grammars the
    exact recorded manifestation is required, so a different completeness
    defect in the same class is still reported"""
    from ..core import stable_hash
    p, clean = pins()
    if stable_hash([case["g"], case["table"], case["max_len"]]) in clean:
        ctx.fail(kind + "-on-grammar-recorded-as-complete", **details)
    pin = p.get(stable_hash([case["g"], case["table"], text]))
    if pin is not None:
        now = [str(details.get("have")), str(details.get("want"))]
        if now != pin:
            ctx.fail(kind + "-differs-from-recorded-finding", recorded=pin, **details)
    ctx.known("D1", kind, **details)


def nullable_goto_cycle(table, nullable):
    """signature of finding D1: the LR automaton has a cycle along gotos over
    nullable non-terminals"""
    graph = {}
    for s in table.states:
        graph[s.state_id] = [t.state_id for sym, t in s.gotos.items() if sym.name in nullable]
    color = {}
    for root in graph:
        if root in color:
            continue
        stack = [(root, iter(graph[root]))]
        color[root] = 1
        while stack:
            node, it = stack[-1]
            for nxt in it:
                c = color.get(nxt)
                if c == 1:
                    return True
                if c is None:
                    color[nxt] = 1
                    stack.append((nxt, iter(graph[nxt])))
                    break
            else:
                color[node] = 2
                stack.pop()
    return False


def sentences(cfg, lex, case):
    """(text, chart) for every generated input that is a sentence"""
    if case.get("only_len"):
        # one long input: the first terminal repeated (big forests)
        t0 = cfg.terms[0][2]
        inputs = [" ".join([t0] * n) for n in ([case["only_len"]] if isinstance(case["only_len"], int)
                                                 else case["only_len"])]
    elif case["lex"] == "L0":
        inputs = (G.render(w, case["fill"], k)
                  for k, w in enumerate(G.l0_inputs(cfg, case["max_len"], junk_upto=0)))
    else:
        inputs = G.char_inputs(case.get("alphabet", "ab"), case["max_len"])
    for text in inputs:
        chart = Chart(cfg, lex, text)
        if chart.accepts():
            yield text, chart


def run_case(case, ctx):
    cfg = CFG.from_json(case["g"])
    if cfg.is_cyclic():
        ctx.label("discarded:cyclic")
        return
    lex = Lexicon(cfg.terms)
    text_g = cfg.to_parglare()
    try:
        grammar = pgl.Grammar.from_string(text_g)
        parser = pgl.GLRParser(grammar, tables=pgl.TABLES[case["table"]])
    except Exception as e:
        ctx.fail("glr-construction-raises", grammar=text_g, table=case["table"], error=repr(e))
    glabels = cfg.labels()
    for l in glabels:
        ctx.label("grammar:" + l)
    ctx.label("lex:" + case["lex"])
    d1 = nullable_goto_cycle(parser.table, cfg.nullable())
    if d1:
        ctx.label("grammar:nullable-goto-cycle (D1 class)")
    for text, chart in sentences(cfg, lex, case):
        info = dict(grammar=text_g, table=case["table"], input=text)
        out = G.run_parse(parser, text)
        if out.kind != "ok":
            if d1 and out.kind == "syntax":
                # all derivations lost: the extreme form of finding D1
                d1_known(ctx, case, text, "sentence-not-accepted", have=0, want="?", **info)
                continue
            ctx.fail("sentence-not-accepted", outcome=out.kind, error=repr(out.exc), **info)
        forest = out.value
        ctx.label("sentences")
        want = chart.sentence_count()
        ref = None
        if want <= 3000:
            try:
                ref = chart.sentence_trees(limit=6000)
            except TooMany:
                ref = None
        if ref is None:
            ctx.label("count-only (reference > 3000 trees)")
            n, loop = G.forest_len(forest)
            if loop or n < want:
                if d1:
                    d1_known(ctx, case, text, "fewer-trees-than-derivations", have=n, want=want, **info)
                    continue
                ctx.fail("fewer-trees-than-derivations", have=n, want=want, **info)
            continue
        refset = set(ref)
        try:
            got = set(T.expand(forest.result, limit=60000))
        except T.TooManyTrees:
            ctx.label("forest-too-big")
            continue
        except T.Cyclic:
            ctx.fail("cyclic-forest-for-acyclic-grammar", **info)
        missing = refset - got
        if missing:
            m = sorted(missing, key=repr)[0]
            if d1:
                d1_known(ctx, case, text, "missing-derivation", missing=repr(m),
                         have=len(refset & got), want=len(refset), **info)
                continue
            ctx.fail("missing-derivation", missing=repr(m), have=len(got), want=len(refset), **info)
        if got - refset:
            ctx.label("extra-trees (C01's subject)")
        if len(refset) >= 2:
            ctx.label("ambiguous-sentence")
        ntok = len(T.canon_leaves(ref[0])) if ref else 0
        if len(refset) >= 2 or (ntok >= 2 and ("nullable" in glabels or "hidden-left-rec" in glabels)):
            ctx.nontrivial([case["g"], case["table"], text],
                           sample={"grammar": text_g, "table": case["table"], "input": text,
                                   "reference_derivations": len(refset), "forest_trees": len(got)})


# ---------------------------------------------------------------- strategies
FILL = st.lists(st.sampled_from(["", " ", "\n"]), min_size=2, max_size=4)


def _case(gstrat, lex, max_len):
    @st.composite
    def c(draw):
        g = draw(gstrat.filter(gen.acyclic))
        ml = max_len
        if lex == "L0" and len(g["terms"]) >= 3:
            ml = max_len - 1
        return {"g": g, "table": draw(st.sampled_from(["LALR", "SLR"])), "lex": lex,
                "fill": draw(FILL), "max_len": ml}
    return c()


def strat_l0(tier):
    return _case(gen.cfgs(max_nts=3, max_alts=3, max_rhs=3), "L0", 5 if tier == "quick" else 6)


def strat_l0_big(tier):
    return _case(gen.cfgs(max_nts=4, max_alts=3, max_rhs=4, max_terms=2), "L0", 5)


def strat_chain(tier):
    return _case(gen.nullable_chain_cfgs(), "L0", 4)


def strat_l1x(tier):
    @st.composite
    def c(draw):
        g = draw(gen.cfgs(max_nts=3, max_alts=3, max_rhs=3, min_terms=3, max_terms=5,
                          terms_pool=gen.L1X_TERMS).filter(gen.acyclic))
        return {"g": g, "table": draw(st.sampled_from(["LALR", "SLR"])), "lex": "L1", "alphabet": "abc",
                "fill": [""], "max_len": 4}
    return c()


def strat_l1(tier):
    return _case(gen.cfgs(max_nts=3, max_alts=3, max_rhs=3, min_terms=2, max_terms=4,
                          terms_pool=gen.L1_TERMS), "L1", 5)


def enum_classics(tier):
    def it():
        for name, g in gen.CLASSICS.items():
            if CFG.from_json(g).is_cyclic():
                continue
            for table in ("LALR", "SLR"):
                yield {"g": g, "table": table, "lex": "L0", "fill": ["", " "],
                       "max_len": 6 if len(g["terms"]) <= 2 else 5}
    return it()


def enum_tiny(tier):
    stride = 8 if tier == "quick" else 1

    def it():
        for i, g in enumerate(gen.tiny_grammars(1 if tier == "quick" else 2)):
            if i % stride:
                continue
            yield {"g": g, "table": "LALR" if (i // stride) % 2 else "SLR", "lex": "L0",
                   "fill": [""], "max_len": 5}
    return it()


def enum_epsilon(tier):
    def it():
        for i, g in enumerate(gen.epsilon_family()):
            if CFG.from_json(g).is_cyclic():
                continue
            yield {"g": g, "table": "LALR" if i % 2 else "SLR", "lex": "L0", "fill": [""], "max_len": 4}
    return it()


SUBCHECKS = [
    SubCheck("classics", run_case, enumerate=enum_classics),
    SubCheck("epsilon-family-exhaustive", run_case, enumerate=enum_epsilon),
    SubCheck("tiny-exhaustive", run_case, enumerate=enum_tiny),
    SubCheck("random-L0", run_case, strategy=strat_l0, examples={"quick": 6400, "thorough": 60000}),
    SubCheck("random-L0-larger", run_case, strategy=strat_l0_big, examples={"quick": 1600, "thorough": 16000}),
    SubCheck("nullable-chain-family", run_case, strategy=strat_chain, examples={"quick": 640, "thorough": 6400}),
    SubCheck("random-L1-crossing-overlap", run_case, strategy=strat_l1x, examples={"quick": 2400, "thorough": 24000}),
    SubCheck("random-L1-overlapping", run_case, strategy=strat_l1, examples={"quick": 1600, "thorough": 16000}),
]


# coverage-guided campaigns of the thorough tier (pv/fuzz.py): (sub-check, libFuzzer runs per shard)
FUZZ = [("random-L0", 40000)]


def subcheck(name):
    return {s.name: s for s in SUBCHECKS}[name]
