"""C03 - the forest packs each derivation once; counting and indexing are
consistent.  Oracles: own counters/expansion over the packed structure
(pv.trees) and the reference derivation enumerator (pv.ref_chart)."""
import collections

from hypothesis import strategies as st

from .. import gen, glrcore as G, pgl, trees as T
from ..cfg import CFG
from ..core import SubCheck, stable_hash
from ..ref_chart import Chart, Lexicon, TooMany
from .c02 import nullable_goto_cycle, sentences

from parglare.exceptions import LoopError

RULE = ("case = (productive grammar, acyclic for the counting clauses and cyclic for the LoopError clause, table, "
        "lexicon, extra index offsets); per case every sentence among all token strings up to 5-6 tokens is parsed "
        "and len/solutions/ambiguities/iteration/lazy+non-lazy indexing/get_first_tree/out-of-range indices are "
        "compared with own counters over the packed structure and with the reference derivation count; "
        "non-trivial = forest with >= 2 trees (strong: >= 2 ambiguity nodes); distinct by (grammar, table, input)")
ASSUMPTIONS = [
    "reference derivation enumerator and own packed-structure counters (pv/trees.py) are correct",
    "negative indices are unspecified and not exercised; the converse of the LoopError clause is not asserted",
]

BIG = 300
_PINS = None


def pins():
    global _PINS
    if _PINS is None:
        import json, os
        from .. import VERIF_DIR
        path = os.path.join(VERIF_DIR, "regress", "C03", "D2-pins.json")
        data = json.load(open(path)) if os.path.exists(path) else {"pins": {}, "clean": []}
        _PINS = data["pins"]
        _PINS["__clean__"] = set(data.get("clean", []))
    return _PINS


def canon_or_exc(getter):
    try:
        return T.canon(getter()), None
    except Exception as e:  # IndexError expected for out-of-range
        return None, e


def run_case(case, ctx):
    cfg = CFG.from_json(case["g"])
    cyclic = cfg.is_cyclic()
    lex = Lexicon(cfg.terms)
    text_g = cfg.to_parglare()
    try:
        grammar = pgl.Grammar.from_string(text_g)
        parser = pgl.GLRParser(grammar, tables=pgl.TABLES[case["table"]])
    except Exception as e:
        ctx.fail("glr-construction-raises", grammar=text_g, table=case["table"], error=repr(e))
    d1 = nullable_goto_cycle(parser.table, cfg.nullable())
    ctx.label("grammar:cyclic" if cyclic else "grammar:acyclic")
    for text, chart in sentences(cfg, lex, case):
        info = dict(grammar=text_g, table=case["table"], input=text)
        out = G.run_parse(parser, text)
        if out.kind != "ok":
            ctx.label("not-accepted (C01/C02's subject)")
            continue
        forest = out.value
        ctx.label("forests")
        # ---- (d) LoopError only for really infinite ambiguity ------------
        try:
            n = forest.solutions
        except LoopError:
            ctx.label("loop-error")
            if not chart.infinitely_ambiguous():
                ctx.fail("loop-error-but-finitely-many-derivations", **info)
            ctx.nontrivial([case["g"], case["table"], text, "loop"],
                           sample={"grammar": text_g, "input": text, "verdict": "LoopError, input is infinitely ambiguous"})
            continue
        except Exception as e:
            ctx.fail("solutions-raises", error=repr(e), **info)
        # ---- (a) raw consistency -----------------------------------------
        try:
            raw = T.raw_count(forest.result)
        except T.Cyclic:
            ctx.fail("solutions-returns-on-cyclic-structure", solutions=n, **info)
        if n != raw:
            ctx.fail("solutions-differs-from-packed-count", solutions=n, own_count=raw, **info)
        if n < 2 ** 62:
            try:
                ln = len(forest)
            except Exception as e:
                ctx.fail("len-raises", error=repr(e), **info)
            if ln != n:
                ctx.fail("len-differs-from-solutions", len=ln, solutions=n, **info)
        if n < 1:
            ctx.fail("accepted-forest-without-trees", solutions=n, **info)
        dups = T.duplicate_alternatives(forest.result)
        small = n <= BIG
        if small:
            lazy = []
            for i in range(n):
                t, e = canon_or_exc(lambda: forest[i])
                if e is not None:
                    ctx.fail("valid-index-raises", index=i, len=n, error=repr(e), **info)
                lazy.append(t)
            it = [T.canon(t) for t in forest]
            if it != lazy:
                ctx.fail("iteration-differs-from-indexing", len=n, iterated=len(it), **info)
            nl = [T.canon(t) for t in forest.nonlazy_iter()]
            if nl != lazy:
                ctx.fail("nonlazy-differs-from-lazy", len=n, **info)
            for i in sorted({0, n - 1, n // 2, (case["probe"] % n)}):
                a, b, c = forest[i], forest.get_tree(i), forest.get_nonlazy_tree(i)
                if not (T.canon(a) == T.canon(b) == T.canon(c) == lazy[i]):
                    ctx.fail("repeated-access-differs", index=i, **info)
                if not (a.to_str() == b.to_str() == c.to_str() == forest[i].to_str()):
                    ctx.fail("to_str-differs-between-access-paths", index=i, **info)
            first = T.canon(forest.get_first_tree())
            if first != lazy[0]:
                ctx.fail("get_first_tree-differs-from-forest[0]", **info)
            try:
                own = T.expand(forest.result, limit=4 * BIG)
            except T.TooManyTrees:
                own = None
            if own is not None and collections.Counter(own) != collections.Counter(lazy):
                ctx.fail("indexed-trees-differ-from-packed-expansion", len=n, expansion=len(own), **info)
        else:
            ctx.label("big-forest")
            # sampled indices incl. generated big ones
            idxs = sorted({0, 1, n - 1, n // 2, n // 3, case["probe"] % n, (case["probe"] * 7919) % n} |
                          {i for i in (2 ** 31, 2 ** 63 - 1, 2 ** 63, 2 ** 63 + 1, 2 ** 64 + 5) if i < n})
            seen = {}
            for i in idxs:
                a, e = canon_or_exc(lambda: forest[i])
                if e is not None:
                    ctx.fail("valid-index-raises", index=i, len=n, error=repr(e), **info)
                b, e = canon_or_exc(lambda: forest.get_nonlazy_tree(i))
                if e is not None or a != b:
                    ctx.fail("nonlazy-differs-from-lazy", index=i, len=n, **info)
                why = T.check_derivation(a, cfg, chart)
                if why:
                    ctx.fail("indexed-tree-is-not-a-derivation", index=i, why=why, **info)
                seen.setdefault(a, i)
            if len(seen) != len(idxs) and not dups:
                ctx.fail("different-indices-give-equal-trees", indices=idxs, **info)
            if T.canon(forest.get_first_tree()) != T.canon(forest[0]):
                ctx.fail("get_first_tree-differs-from-forest[0]", **info)
        # ---- (b) out of range ---------------------------------------------
        for i in (n, n + 1, 2 * n, 10 * n + 7, n + case["probe"]):
            t, e = canon_or_exc(lambda: forest[i])
            if e is None:
                ctx.fail("index-beyond-len-yields-tree", index=i, len=n, **info)
            if not isinstance(e, IndexError):
                ctx.fail("index-beyond-len-raises-other", index=i, len=n, error=repr(e), **info)
            t, e = canon_or_exc(lambda: forest.get_nonlazy_tree(i))
            if e is None or not isinstance(e, IndexError):
                ctx.fail("nonlazy-index-beyond-len", index=i, len=n, error=repr(e), **info)
        # ---- (c) distinctness and agreement with the reference ------------
        if dups:
            # Known finding D2.  For the pinned corpus (classics + the quick
            # tiny-grammar enumeration) the exact manifestation is recorded, so
            # a *different* duplicate-packing defect is still reported.
            pin = pins().get(stable_hash([case["g"], case["table"], text]))
            if stable_hash([case["g"], case["table"], case["max_len"]]) in pins()["__clean__"]:
                ctx.fail("duplicate-packing-on-grammar-recorded-as-clean", len=n, **info)
            if pin is not None:
                ctx.label("duplicate-packing compared with recorded manifestation")
                now = [str(n), len(set(lazy)) if small else -1]
                if now != pin:
                    ctx.fail("duplicate-packing-differs-from-recorded-finding", recorded=pin, now=now, **info)
            ctx.known("D2", "duplicate-alternative-in-packed-node", len=n, **info)
            ctx.label("duplicate-packing (D2)")
        elif small and not cyclic:
            if len(set(lazy)) != n:
                ctx.fail("trees-not-pairwise-different", len=n, distinct=len(set(lazy)), **info)
            want = chart.sentence_count()
            if n != want:
                if n < want and d1:
                    ctx.known("D1", "fewer-trees-than-derivations", have=n, want=want, **info)
                else:
                    ctx.fail("len-differs-from-number-of-derivations", len=n, derivations=want, **info)
        elif not cyclic:
            want = chart.sentence_count()
            if n != want:
                if n < want and d1:
                    ctx.known("D1", "fewer-trees-than-derivations", have=n, want=want, **info)
                else:
                    ctx.fail("len-differs-from-number-of-derivations", len=n, derivations=want, **info)
        if not dups:
            try:
                amb = forest.ambiguities
            except Exception as e:
                ctx.fail("ambiguities-raises", error=repr(e), **info)
            own_amb = T.ambiguous_nodes(forest.result)
            if amb != own_amb:
                ctx.fail("ambiguities-differs-from-own-count", ambiguities=amb, own=own_amb, **info)
            if own_amb >= 2:
                ctx.label("ambiguity-nodes>=2")
        if n >= 2:
            ctx.nontrivial([case["g"], case["table"], text],
                           sample={"grammar": text_g, "table": case["table"], "input": text,
                                   "len": n if n < 10 ** 12 else str(n), "duplicates": bool(dups)})


# ---------------------------------------------------------------- strategies
FILL = st.lists(st.sampled_from(["", " "]), min_size=2, max_size=3)
PROBE = st.integers(0, 10 ** 9)


def _case(gstrat, lex, max_len):
    @st.composite
    def c(draw):
        g = draw(gstrat)
        ml = max_len
        if lex == "L0" and len(g["terms"]) >= 3:
            ml = max_len - 1
        return {"g": g, "table": draw(st.sampled_from(["LALR", "SLR"])), "lex": lex,
                "fill": draw(FILL), "max_len": ml, "probe": draw(PROBE)}
    return c()


def strat_l0(tier):
    return _case(gen.cfgs(max_nts=3, max_alts=3, max_rhs=3), "L0", 5 if tier == "quick" else 6)


def strat_ambiguous(tier):
    """binary-operator style grammars on longer inputs: big forests and mixed
    radix weights"""
    @st.composite
    def c(draw):
        g = draw(gen.cfgs(max_nts=2, max_alts=3, max_rhs=3, max_terms=2))
        # add an S: S S / S a S alternative to make it highly ambiguous
        t0 = g["terms"][0][0]
        extra = draw(st.sampled_from([["S", "S"], ["S", t0, "S"], ["S", "S", "S"]]))
        prods = g["prods"] + [["S", extra]]
        from ..cfg import normalise
        g2 = normalise(g["nts"], [tuple(t) for t in g["terms"]], [(l, tuple(r)) for l, r in prods]).to_json()
        return {"g": g2, "table": draw(st.sampled_from(["LALR", "SLR"])), "lex": "L0",
                "fill": [""], "max_len": draw(st.integers(6, 9)) if len(g2["terms"]) == 1 else 6,
                "probe": draw(PROBE)}
    return c()


def strat_l1(tier):
    return _case(gen.cfgs(max_nts=3, max_alts=3, max_rhs=3, min_terms=2, max_terms=4,
                          terms_pool=gen.L1_TERMS), "L1", 5)


def enum_classics(tier):
    def it():
        for name, g in gen.CLASSICS.items():
            for table in ("LALR", "SLR"):
                yield {"g": g, "table": table, "lex": "L0", "fill": ["", " "],
                       "max_len": 6 if len(g["terms"]) <= 2 else 5, "probe": 12345}
        # long input for the expression grammar: forests beyond 10^6 trees
        # long inputs: forests beyond 10^6 trees and beyond 2**63 (big-integer index arithmetic)
        for n, probe in ((13, 987654321), (24, 2 ** 40 + 12345), (40, 2 ** 63 + 977), (41, 2 ** 64 - 3)):
            yield {"g": gen.CLASSICS["sss"], "table": "LALR", "lex": "L0", "fill": [""], "max_len": n,
                   "probe": probe, "only_len": n}
        yield {"g": gen.CLASSICS["ssS3"], "table": "SLR", "lex": "L0", "fill": [""], "max_len": 22,
               "probe": 2 ** 63 - 1, "only_len": 22}
    return it()


def enum_tiny(tier):
    stride = 8 if tier == "quick" else 1

    def it():
        for i, g in enumerate(gen.tiny_grammars(1 if tier == "quick" else 2)):
            if i % stride:
                continue
            yield {"g": g, "table": "LALR" if (i // stride) % 2 else "SLR", "lex": "L0",
                   "fill": [""], "max_len": 5, "probe": i}
    return it()


def enum_epsilon(tier):
    stride = 1

    def it():
        for i, g in enumerate(gen.epsilon_family()):
            yield {"g": g, "table": "LALR" if i % 2 else "SLR", "lex": "L0",
                   "fill": [""], "max_len": 4, "probe": i}
    return it()


SUBCHECKS = [
    SubCheck("classics", run_case, enumerate=enum_classics),
    SubCheck("epsilon-family-exhaustive", run_case, enumerate=enum_epsilon),
    SubCheck("tiny-exhaustive", run_case, enumerate=enum_tiny),
    SubCheck("random-L0", run_case, strategy=strat_l0, examples={"quick": 4800, "thorough": 48000}),
    SubCheck("random-ambiguous-long", run_case, strategy=strat_ambiguous,
             examples={"quick": 960, "thorough": 9600}),
    SubCheck("random-L1-overlapping", run_case, strategy=strat_l1, examples={"quick": 1600, "thorough": 16000}),
]


# coverage-guided campaigns of the thorough tier (pv/fuzz.py): (sub-check, libFuzzer runs per shard)
FUZZ = [("random-L0", 30000)]


def subcheck(name):
    return {s.name: s for s in SUBCHECKS}[name]
