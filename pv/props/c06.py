"""C06 - priorities and associativity give the conventional operator-precedence
parse.  Oracle: precedence climbing parser (R-prec)."""
import itertools

from hypothesis import strategies as st

from .. import gen, glrcore as G, pgl, trees as T
from ..cfg import CFG
from ..core import SubCheck
from ..ref_chart import Chart, Lexicon

import parglare
from parglare.exceptions import SRConflicts, RRConflicts

RULE = ("case = operator table (1-6 binary operators over 1-6 priority levels with arbitrary integer priorities, one "
        "associativity per level, alternatives in generated order, meta-data per production or inherited from the "
        "rule, atom as string or regex terminal) + generated parenthesised expressions; per table all operator "
        "sequences with <= 3 operators (exhaustive) and the generated expressions are parsed by LR (no strategy) and "
        "GLR and compared with a precedence-climbing parser; non-trivial = expression with >= 2 operators of two "
        "different levels or of one level; distinct by (table, expression).  Second family: deterministic LALR(1) "
        "grammars to which generated priorities/associativities are added must keep language and trees")
ASSUMPTIONS = [
    "precedence climbing (pv/props/c06.py ref_parse) is the conventional meaning of priority + associativity",
    "operators of equal priority share one associativity (the property's precondition)",
]

OPS = ["+", "-", "*", "/", "^", "%"]
OPNAMES = ["plus", "minus", "mul", "div", "pow", "mod"]


def table_grammar(case):
    """grammar text for an operator table case"""
    ops = case["ops"]          # list of [op index, priority, assoc]
    order = case["order"]      # permutation of alternatives
    style = case["style"]      # "prod" | "rule-assoc" | "rule-prio"
    alts = []
    rule_meta = ""
    if style == "rule-assoc":
        # all levels share the rule's associativity; priorities per production
        rule_meta = " {%s}" % ops[0][2]
    elif style == "rule-prio":
        rule_meta = " {%s, %d}" % (ops[0][2], ops[0][1])
    for i, (oi, prio, assoc) in enumerate(ops):
        if style == "prod":
            meta = " {%s, %d}" % (assoc, prio) if case.get("assoc_first", True) else " {%d, %s}" % (prio, assoc)
        elif style == "rule-assoc":
            meta = " {%d}" % prio
        else:  # rule-prio: first operator inherits everything, others override
            meta = "" if i == 0 else " {%s, %d}" % (assoc, prio)
        alts.append("E %s E%s" % (OPNAMES[oi], meta))
    alts.append("lp E rp")
    alts.append("atom")
    alts = [alts[i] for i in order]
    atom = "atom: 'n';" if case["atom"] == "str" else r"atom: /\d+/;"
    terms = "\n".join("%s: '%s';" % (OPNAMES[oi], OPS[oi]) for oi, _, _ in ops)
    return "E%s: %s;\nterminals\n%s\nlp: '(';\nrp: ')';\n%s\n" % (rule_meta, " | ".join(alts), terms, atom)


def effective_ops(case):
    """{op char: (priority, assoc)} as the documentation defines inheritance"""
    ops = case["ops"]
    style = case["style"]
    out = {}
    for i, (oi, prio, assoc) in enumerate(ops):
        if style == "rule-assoc":
            assoc = ops[0][2]
        out[OPS[oi]] = (prio, assoc)
    return out


def ref_parse(tokens, ops):
    """precedence climbing; returns the nested-list value parglare's default
    actions produce: [l, op, r], ['(', e, ')'], atom text"""
    pos = [0]

    def atom():
        t = tokens[pos[0]]
        if t == "(":
            pos[0] += 1
            e = expr(None)
            assert tokens[pos[0]] == ")"
            pos[0] += 1
            return ["(", e, ")"]
        pos[0] += 1
        return t

    def expr(min_prio):
        lhs = atom()
        while pos[0] < len(tokens) and tokens[pos[0]] in ops:
            op = tokens[pos[0]]
            prio, assoc = ops[op]
            if min_prio is not None and prio < min_prio[0]:
                break
            if min_prio is not None and prio == min_prio[0] and min_prio[1]:
                break
            pos[0] += 1
            # left: the right operand may only contain strictly higher levels
            rhs = expr((prio, assoc == "left"))
            lhs = [lhs, op, rhs]
        return lhs

    v = expr(None)
    assert pos[0] == len(tokens)
    return v


def gen_exprs_exhaustive(opchars, atom_text):
    for n in range(0, 4):
        for seq in itertools.product(opchars, repeat=n):
            toks = [atom_text]
            for o in seq:
                toks += [o, atom_text]
            yield toks


def count_ops(toks, ops):
    return [t for t in toks if t in ops]


def run_table(case, ctx):
    text_g = table_grammar(case)
    ops = effective_ops(case)
    atom_text = "n" if case["atom"] == "str" else "7"
    info0 = dict(grammar=text_g)
    try:
        lr = pgl.Parser(pgl.Grammar.from_string(text_g), prefer_shifts=False, prefer_shifts_over_empty=False)
    except (SRConflicts, RRConflicts) as e:
        ctx.fail("conflicts-on-fully-prioritised-operator-grammar", error=repr(e)[:200], **info0)
    except Exception as e:
        ctx.fail("construction-raises", error=repr(e), **info0)
    try:
        glr = pgl.GLRParser(pgl.Grammar.from_string(text_g))
    except Exception as e:
        ctx.fail("glr-construction-raises", error=repr(e), **info0)
    exprs = list(gen_exprs_exhaustive(list(ops), atom_text))
    exprs += [[atom_text if t == "n" else t for t in e] for e in case["exprs"]
              if all(t in ops or t in "()n" for t in e)]
    ctx.label("tables")
    ctx.label("style:" + case["style"])
    ctx.label("levels:%d" % len({p for p, _ in ops.values()}))
    for toks in exprs:
        text = " ".join(toks)
        info = dict(expression=text, **info0)
        try:
            want = ref_parse(toks, ops)
        except (AssertionError, IndexError):
            continue  # not well formed (generated parentheses); not this property's subject
        out = G.run_parse(lr, text)
        if out.kind != "ok":
            ctx.fail("lr-rejects-well-formed-expression", error=repr(out.exc), **info)
        if out.value != want:
            ctx.fail("lr-tree-differs-from-precedence-climbing", got=repr(out.value), expected=repr(want), **info)
        gout = G.run_parse(glr, text)
        if gout.kind != "ok":
            ctx.fail("glr-rejects-well-formed-expression", error=repr(gout.exc), **info)
        n, loop = G.forest_len(gout.value)
        if loop or n != 1:
            ctx.fail("glr-does-not-return-exactly-one-tree", len=n, **info)
        gv = glr.call_actions(gout.value[0])
        if gv != want:
            ctx.fail("glr-tree-differs-from-precedence-climbing", got=repr(gv), expected=repr(want), **info)
        gv2 = glr.call_actions(gout.value.get_first_tree())
        if gv2 != want:
            ctx.fail("glr-first-tree-differs-from-precedence-climbing", got=repr(gv2), expected=repr(want), **info)
        used = count_ops(toks, ops)
        ctx.label("expressions")
        if len(used) >= 2:
            lv = {ops[o][0] for o in used}
            ctx.label("grouping-matters:" + ("two-levels" if len(lv) >= 2 else "one-level"))
            ctx.nontrivial([case["ops"], case["style"], case["order"], text],
                           sample={"grammar": text_g, "expression": text, "tree": repr(want)})


# ------------------------------------------------------- second family
def run_neutral(case, ctx):
    """adding priorities / associativities to a deterministic LALR(1) grammar
    changes neither the language nor any tree"""
    cfg = CFG.from_json(case["g"])
    text_plain = cfg.to_parglare()
    try:
        plain = pgl.Parser(pgl.Grammar.from_string(text_plain), prefer_shifts=False,
                           prefer_shifts_over_empty=False, build_tree=True)
    except (SRConflicts, RRConflicts):
        ctx.label("discarded:not-lalr1")
        return
    if not pgl.deterministic_table(plain.table):
        ctx.label("discarded:not-deterministic")
        return
    meta = {}
    for i in range(len(cfg.prods)):
        m = case["meta"][i % len(case["meta"])]
        if m:
            meta[i] = m
    text_meta = cfg.to_parglare(prod_meta=meta)
    info0 = dict(grammar=text_plain, with_meta=text_meta)
    try:
        withm = pgl.Parser(pgl.Grammar.from_string(text_meta), prefer_shifts=False,
                           prefer_shifts_over_empty=False, build_tree=True)
    except Exception as e:
        ctx.fail("priorities-break-construction-of-lalr1-grammar", error=repr(e)[:300], **info0)
    glr = pgl.GLRParser(pgl.Grammar.from_string(text_meta))
    ctx.label("deterministic-grammars")
    for k, w in enumerate(G.l0_inputs(cfg, case["max_len"], junk_upto=1)):
        text = G.render(w, [" "], k)
        info = dict(input=text, **info0)
        a = G.run_parse(plain, text)
        b = G.run_parse(withm, text)
        if a.kind != b.kind:
            ctx.fail("priorities-change-the-language", plain_outcome=a.kind, with_meta_outcome=b.kind, **info)
        if a.kind == "ok":
            ta, tb = T.canon(a.value), T.canon(b.value)
            if ta != tb:
                ctx.fail("priorities-change-the-tree", plain_tree=repr(ta), with_meta_tree=repr(tb), **info)
            g = G.run_parse(glr, text)
            if g.kind != "ok":
                ctx.fail("priorities-change-the-language", parser="GLR", **info)
            n, loop = G.forest_len(g.value)
            if loop or n != 1 or T.canon(g.value[0]) != ta:
                ctx.fail("priorities-change-the-glr-result", len=n, **info)
            if len(T.canon_leaves(ta)) >= 2:
                ctx.nontrivial([case["g"], case["meta"], text],
                               sample={"grammar": text_meta, "input": text})
        elif a.kind == "syntax":
            if a.exc.location.start_position != b.exc.location.start_position:
                ctx.fail("priorities-change-the-error-position", **info)
    ctx.label("neutral-comparisons")


# ---------------------------------------------------------------- strategies
@st.composite
def tables(draw):
    k = draw(st.integers(1, 6))
    op_idx = draw(st.permutations(range(6)))[:k]
    nlev = max(1, k - draw(st.integers(0, 3)))
    # arbitrary integers: small ones, 0, and values outside CPython's small-integer cache
    prios = draw(st.lists(st.one_of(st.integers(0, 25), st.sampled_from([255, 256, 257, 500, 1000, 70000])),
                          min_size=nlev, max_size=nlev, unique=True))
    assocs = [draw(st.sampled_from(["left", "right"])) for _ in range(nlev)]
    level_of = [i if i < nlev else draw(st.integers(0, nlev - 1)) for i in range(k)]
    style = draw(st.sampled_from(["prod", "prod", "prod", "rule-assoc", "rule-prio"]))
    ops = [[op_idx[i], prios[level_of[i]], assocs[level_of[i]]] for i in range(k)]
    if style == "rule-assoc":
        for o in ops:
            o[2] = ops[0][2]
    order = draw(st.permutations(range(k + 2)))
    tok = st.sampled_from([OPS[i] for i in op_idx] + ["n", "n", "(", ")"])
    # random parenthesised expressions built structurally
    def expr(depth):
        if depth == 0 or draw(st.integers(0, 2)) == 0:
            return ["n"]
        kind = draw(st.integers(0, 3))
        if kind == 0:
            return ["("] + expr(depth - 1) + [")"]
        return expr(depth - 1) + [OPS[draw(st.sampled_from(op_idx))]] + expr(depth - 1)
    exprs = [expr(3) for _ in range(draw(st.integers(2, 6)))]
    exprs = [e for e in exprs if len(e) <= 13]
    return {"ops": ops, "order": list(order), "style": style, "atom": draw(st.sampled_from(["str", "re"])),
            "assoc_first": draw(st.booleans()), "exprs": exprs}


def strat_tables(tier):
    return tables()


META = st.sampled_from(["", "", "left", "right", "left, 3", "right, 15", "1", "20", "0", "shift", "reduce, 7"])


def strat_neutral(tier):
    @st.composite
    def c(draw):
        g = draw(gen.cfgs(max_nts=3, max_alts=3, max_rhs=3, allow_empty=True))
        return {"g": g, "meta": draw(st.lists(META, min_size=2, max_size=7)),
                "max_len": 5 if len(g["terms"]) <= 2 else 4}
    return c()


def strat_neutral_chain(tier):
    @st.composite
    def c(draw):
        g = draw(gen.nullable_chain_cfgs())
        return {"g": g, "meta": draw(st.lists(META, min_size=2, max_size=7)), "max_len": 4}
    return c()


STRATIFIED = CFG(["S", "A", "B"], [("a", "str", "a"), ("b", "str", "b"), ("c", "str", "c"),
                                   ("d", "str", "d"), ("e", "str", "e")],
                 [("S", ["S", "a", "A"]), ("S", ["A"]), ("A", ["A", "b", "B"]), ("A", ["B"]),
                  ("B", ["c", "S", "d"]), ("B", ["e"])]).to_json()


def enum_neutral(tier):
    def it():
        metas = [["left, 1", "right, 2", "", "5"], ["right", "left", "right, 30"], ["0", "left, 0", "right"],
                 ["20", "", "", "left"]]
        for m in metas:
            yield {"g": STRATIFIED, "meta": m, "max_len": 4}
    return it()


def enum_tables(tier):
    """every table over two operators with priorities from {0,1,10} and every
    associativity combination, both alternative orders"""
    def it():
        for p0, p1 in itertools.product([0, 1, 10, 1000], repeat=2):
            for a0, a1 in itertools.product(["left", "right"], repeat=2):
                if p0 == p1 and a0 != a1:
                    continue
                for order in ([0, 1, 2, 3], [3, 2, 1, 0], [1, 3, 0, 2]):
                    yield {"ops": [[0, p0, a0], [4, p1, a1]], "order": order, "style": "prod",
                           "atom": "str", "assoc_first": True,
                           "exprs": [["(", "n", "+", "n", ")", "^", "n", "+", "n"]]}
    return it()


SUBCHECKS = [
    SubCheck("two-operator-tables-exhaustive", run_table, enumerate=enum_tables),
    SubCheck("random-operator-tables", run_table, strategy=strat_tables,
             examples={"quick": 800, "thorough": 12000}),
    SubCheck("stratified-neutral", run_neutral, enumerate=enum_neutral, shards={"quick": 4, "thorough": 4}),
    SubCheck("priorities-neutral-on-lalr1", run_neutral, strategy=strat_neutral,
             examples={"quick": 1600, "thorough": 16000}),
    SubCheck("priorities-neutral-on-nullable-chains", run_neutral, strategy=strat_neutral_chain,
             examples={"quick": 480, "thorough": 4800}),
]


def subcheck(name):
    return {s.name: s for s in SUBCHECKS}[name]
