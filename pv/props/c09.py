"""C09 - all ways of running semantic actions give the same result.  Oracle:
the routes are compared with each other and with a reference evaluator
(R-eval) applied to the derivation the LR parser actually built."""
import itertools

from hypothesis import strategies as st

from .. import gen, glrcore as G, pgl
from ..cfg import CFG
from ..core import SubCheck

import parglare
from parglare.exceptions import SRConflicts, RRConflicts

RULE = ("case = (small grammar decorated with repetition/optional sugar with and without separators, named matches = "
        "and ?= at generated positions, and an action table: per rule none | one callable | per-alternative list, "
        "terminal actions); every token string up to 5 tokens that the LR parser accepts is evaluated on the fly, via "
        "build_tree + call_actions, via GLR + call_actions (forest[0] and get_first_tree, when the forest has one "
        "tree) and by a reference evaluator on the built tree; also without user actions; non-trivial = derivation "
        "with >= 3 interior nodes that involves a per-alternative list, a named match or a sugar helper; distinct by "
        "(grammar, actions, input)")
ASSUMPTIONS = [
    "the built-in collect actions skip a non-first element whose result is None (a nullable element that matched nothing); the reference evaluator does the same",
    "reference evaluator (pv/props/c09.py ref_eval) states docs/actions.md and docs/grammar_language.md: argument order, alternative index, named-match binding, default nested lists with single-child unpacking, +,*,? built-ins",
    "actions are pure tagging functions, so results reveal argument order, alternative choice and bindings",
    "an action set is what the parser's constructor was given: symbols it does not mention get the default, also when the same Grammar object served a parser with other actions before (checked for non-empty action sets only: a parser built without actions leaves the grammar's symbols untouched, by design)",
    "results are compared with their container types (lists stay lists: 'the nested list that mirrors the derivation')",
]


# ------------------------------------------------------------- grammar text
def elem_text(e):
    s = e["sym"]
    if e["op"]:
        s += e["op"]
        if e.get("sep"):
            s += "[%s]" % e["sep"]
    if e.get("name"):
        s = "%s%s%s" % (e["name"], "?=" if e.get("bool") else "=", s)
    return s


def elem_symbol(e):
    """name of the grammar symbol an element denotes (documented helper names)"""
    if not e["op"]:
        return e["sym"]
    if e["op"] == "?":
        return e["sym"] + "_opt"
    return "%s_%s%s" % (e["sym"], "1" if e["op"] == "+" else "0", "_" + e["sep"] if e.get("sep") else "")


def grammar_text(case):
    lines = []
    tail = []
    for r in case["rules"]:
        alts = [" ".join(elem_text(e) for e in alt) if alt else "EMPTY" for alt in r["alts"]]
        k = r.get("split", 0)
        if k and 0 < k < len(alts):
            # the rule is defined in two places (parglare merges the definitions in order)
            lines.append("%s: %s;" % (r["name"], " | ".join(alts[:k])))
            tail.append("%s: %s;" % (r["name"], " | ".join(alts[k:])))
        else:
            lines.append("%s: %s;" % (r["name"], " | ".join(alts)))
    lines.extend(tail)
    lines.append("terminals")
    for t in case["terms"]:
        lines.append("%s: '%s';" % (t, t))
    return "\n".join(lines) + "\n"


def helper_kinds(case):
    """{helper rule name: (kind, base, sep)} for the documented helper names"""
    out = {}
    for r in case["rules"]:
        for alt in r["alts"]:
            for e in alt:
                if e["op"] in ("+", "*"):
                    sep = e.get("sep")
                    n1 = "%s_1%s" % (e["sym"], "_" + sep if sep else "")
                    out[n1] = ("+", e["sym"], sep)
                    if e["op"] == "*":
                        out["%s_0%s" % (e["sym"], "_" + sep if sep else "")] = ("*", e["sym"], sep)
                elif e["op"] == "?":
                    out["%s_opt" % e["sym"]] = ("?", e["sym"], None)
    return out


# ------------------------------------------------------------------ actions
def make_actions(case, log=None):
    acts = {}
    for r in case["rules"]:
        mode = r["action"]
        has_named = any(e.get("name") for alt in r["alts"] for e in alt)

        def mk(rule, tag):
            def act(context, nodes, **kw):
                return ("R", rule, tag, tconv(nodes), tuple(sorted((k, tconv(v)) for k, v in kw.items())))
            return act
        if mode == "one":
            acts[r["name"]] = mk(r["name"], None)
        elif mode == "list":
            acts[r["name"]] = [mk(r["name"], i) for i in range(len(r["alts"]))]
    for t in case["term_actions"]:
        def mkt(name):
            def act(context, value, *rest):
                return ("T", name, value)
            return act
        acts[t] = mkt(t)
    for t in case.get("term_none", []):
        # an action whose result is None (parglare.actions.pass_none: drop punctuation) is still an action
        acts[t] = lambda context, value, *rest: None
    return acts


def conv(v):
    """loose variant (lists and tuples alike) used by C13 / C20, which compare parglare with parglare"""
    if isinstance(v, (list, tuple)):
        return tuple(conv(x) for x in v)
    if hasattr(v, "_pg_children_names"):
        return ("OBJ", type(v).__name__,
                tuple(sorted((n, conv(getattr(v, n))) for n in v._pg_children_names)))
    return v


def tconv(v):
    """make results comparable and hashable, keeping the container type: a list becomes ("list", ...), a
    tuple stays a tuple (the property says nested *lists*), obj instances -> tagged tuples"""
    if isinstance(v, list):
        return ("list",) + tuple(tconv(x) for x in v)
    if isinstance(v, tuple):
        return tuple(tconv(x) for x in v)
    if hasattr(v, "_pg_children_names"):
        return ("OBJ", type(v).__name__,
                tuple(sorted((n, tconv(getattr(v, n))) for n in v._pg_children_names)))
    return v


# ------------------------------------------------------------------- R-eval
def ref_eval(node, case, helpers, with_actions):
    rules = {r["name"]: r for r in case["rules"]}

    def alt_elems(rule, idx):
        return rules[rule]["alts"][idx]

    def ev(n):
        if n.is_term():
            name = n.symbol.name
            if with_actions and name in case.get("term_none", []):
                return None
            if with_actions and name in case["term_actions"]:
                return ("T", name, n.value)
            return n.value
        name = n.symbol.name
        kids = list(n.children)
        sub = [ev(k) for k in kids]
        if name in helpers:
            kind, base, sep = helpers[name]
            if kind == "+":
                # x_1: x_1 [sep] x | x  -> flat list of element results
                # the built-in collect actions skip an element whose result is
                # None (a nullable element that matched nothing) unless it is the first
                if len(kids) == 1:
                    return [sub[0]]
                return list(sub[0]) + ([sub[-1]] if sub[-1] is not None else [])
            if kind == "*":
                return list(sub[0]) if kids else []
            return sub[0] if kids else None
        r = rules[name]
        # which alternative was applied: decided from the children's symbols, independently of
        # parglare's own numbering (which only breaks ties between alternatives with equal symbols)
        kid_syms = [k.symbol.name for k in kids]
        cands = [i for i, alt in enumerate(r["alts"]) if [elem_symbol(e) for e in alt] == kid_syms]
        idx = n.production.prod_symbol_id
        if len(cands) == 1:
            idx = cands[0]
        elif idx not in cands:
            raise AssertionError("no alternative of %s matches children %s" % (name, kid_syms))
        elems = alt_elems(name, idx)
        named = [(i, e) for i, e in enumerate(elems) if e.get("name")]
        has_named_rule = any(e.get("name") for alt in r["alts"] for e in alt)
        kw = {}
        for i, e in named:
            kw[e["name"]] = bool(sub[i]) if e.get("bool") else sub[i]
        mode = r["action"] if with_actions else "none"
        if mode in ("one", "list"):
            return ("R", name, idx if mode == "list" else None, tconv(list(sub)),
                    tuple(sorted((k, tconv(v)) for k, v in kw.items())))
        if has_named_rule:
            # default obj action for rules with named matches
            return ("OBJ", name, tuple(sorted((k, tconv(v)) for k, v in kw.items())))
        return sub[0] if len(sub) == 1 else list(sub)
    import sys
    old = sys.getrecursionlimit()
    sys.setrecursionlimit(10000)
    try:
        return tconv(ev(node))
    finally:
        sys.setrecursionlimit(old)


def interior_count(n):
    c = 0
    stack = [n]
    while stack:
        x = stack.pop()
        if not x.is_term():
            c += 1
            stack.extend(x.children)
    return c


def run_case(case, ctx):
    text_g = grammar_text(case)
    helpers = helper_kinds(case)
    info0 = dict(grammar=text_g, actions={r["name"]: r["action"] for r in case["rules"]},
                 terminal_actions=case["term_actions"])
    nonempty = bool(make_actions(case))
    if case.get("term_none"):
        ctx.label("terminal action returning None")

    def mk(text, with_actions=False):
        g = pgl.Grammar.from_string(text)
        # (only for parsers that get a non-empty action set: constructing a parser without actions leaves the
        # grammar's symbols as they are, by design)
        if case.get("decoy") and with_actions and nonempty:
            # the Grammar object served another parser with another action set before: constructing a parser
            # installs exactly the actions it is given (and the defaults for everything else)
            def decoy(context, nodes_or_value, *rest, **kw):
                return ("DECOY",)
            names = [r["name"] for r in case["rules"]] + list(case["terms"])
            pgl.Parser(g, actions={n: decoy for i, n in enumerate(names) if (case["decoy"] >> (i % 3)) & 1 or case["decoy"] == 4})
        return g
    if case.get("decoy") and nonempty:
        ctx.label("grammar-object-used-with-other-actions-before")
    try:
        p_fly = pgl.Parser(mk(text_g, True), actions=make_actions(case))
        p_tree = pgl.Parser(mk(text_g, True), actions=make_actions(case), build_tree=True)
        p_plain = pgl.Parser(mk(text_g))
        p_plain_tree = pgl.Parser(mk(text_g), build_tree=True)
        glr = pgl.GLRParser(mk(text_g, True), actions=make_actions(case))
    except (SRConflicts, RRConflicts):
        ctx.label("discarded:lr-conflicts")
        return
    except parglare.GrammarError as e:
        ctx.label("discarded:grammar-error")
        return
    except Exception as e:
        ctx.fail("construction-raises", error=repr(e)[:300], **info0)
    ctx.label("grammars")
    interesting = any(r["action"] == "list" for r in case["rules"]) or bool(helpers) or \
        any(e.get("name") for r in case["rules"] for alt in r["alts"] for e in alt)
    dead = False
    for n in range(0, case["max_len"] + 1):
        for w in itertools.product(case["terms"], repeat=n):
            if dead:
                break
            text = " ".join(w)
            info = dict(input=text, **info0)
            out = G.run_parse_soft(p_tree, text, 0.5)
            if out.kind == "timeout":
                dead = True
                break
            if out.kind != "ok":
                continue
            tree = out.value
            want = ref_eval(tree, case, helpers, True)
            try:
                a = tconv(p_fly.parse(text))
            except Exception as e:
                ctx.fail("on-the-fly-evaluation-raises", error=repr(e)[:300], **info)
            try:
                b = tconv(p_tree.call_actions(tree))
            except Exception as e:
                ctx.fail("call_actions-raises", error=repr(e)[:300], **info)
            if a != want:
                ctx.fail("on-the-fly-result-differs-from-reference", got=repr(a)[:400], expected=repr(want)[:400], **info)
            if b != want:
                ctx.fail("call_actions-result-differs-from-reference", got=repr(b)[:400], expected=repr(want)[:400], **info)
            # without user actions: the nested list mirroring the derivation
            want_plain = ref_eval(p_plain_tree.parse(text), case, helpers, False)
            c = tconv(p_plain.parse(text))
            if c != want_plain:
                ctx.fail("default-result-differs-from-reference", got=repr(c)[:400],
                         expected=repr(want_plain)[:400], **info)
            d = tconv(p_plain_tree.call_actions(p_plain_tree.parse(text)))
            if d != want_plain:
                ctx.fail("default-call_actions-differs-from-reference", got=repr(d)[:400],
                         expected=repr(want_plain)[:400], **info)
            # GLR route when the forest has a single tree
            gout = G.run_parse(glr, text)
            if gout.kind == "ok":
                nt, loop = G.forest_len(gout.value)
                if not loop and nt == 1:
                    try:
                        g1 = tconv(glr.call_actions(gout.value[0]))
                        g2 = tconv(glr.call_actions(gout.value.get_first_tree()))
                        g3 = tconv(glr.call_actions(gout.value.get_nonlazy_tree(0)))
                    except Exception as e:
                        ctx.fail("glr-call_actions-raises", error=repr(e)[:300], **info)
                    if not (g1 == g2 == g3 == want):
                        ctx.fail("glr-call_actions-differs", lazy=repr(g1)[:300], first_tree=repr(g2)[:300],
                                 nonlazy=repr(g3)[:300], expected=repr(want)[:300], **info)
                    ctx.label("glr-single-tree-compared")
            ctx.label("sentences")
            if interesting and interior_count(tree) >= 3:
                ctx.nontrivial([case["rules"], case["term_actions"], text],
                               sample={"grammar": text_g, "input": text, "result": repr(want)[:300]})


# ---------------------------------------------------------------- strategies
@st.composite
def cases(draw):
    g = CFG.from_json(draw(gen.cfgs(max_nts=3, max_alts=3, max_rhs=3, max_terms=3)))
    terms = g.term_names
    rules = []
    for n in g.nts:
        alts = []
        for _, rhs in g.by_lhs[n]:
            names = iter(["n%d" % i for i in range(10)])
            alt = []
            for s in rhs:
                e = {"sym": s, "op": "", "sep": None, "name": None, "bool": False}
                k = draw(st.integers(0, 9))
                if k <= 2:
                    e["op"] = ["*", "+", "?"][k]
                    if e["op"] != "?" and draw(st.integers(0, 2)) == 0:
                        seps = [t for t in terms if t != s]
                        if seps:
                            e["sep"] = draw(st.sampled_from(seps))
                if draw(st.integers(0, 3)) == 0:
                    e["name"] = next(names)
                    e["bool"] = draw(st.booleans())
                alt.append(e)
            alts.append(alt)
        split = draw(st.integers(0, 2)) if len(alts) >= 2 and draw(st.integers(0, 2)) == 0 else 0
        if split:
            # a rule defined in two places: which definition decides about the default obj action of
            # named matches is not documented, so split rules carry no named matches
            for alt in alts:
                for e in alt:
                    e["name"] = None
        rules.append({"name": n, "alts": alts, "action": draw(st.sampled_from(["none", "one", "list", "list"])),
                      "split": split})
    term_actions = [t for t in terms if draw(st.booleans())]
    term_none = [t for t in terms if t not in term_actions and draw(st.integers(0, 3)) == 0]
    return {"rules": rules, "terms": terms, "term_actions": term_actions, "term_none": term_none, "decoy": draw(st.sampled_from([0, 0, 1, 2, 3, 4])),
            "max_len": 5 if len(terms) <= 2 else 4}


def strat(tier):
    return cases()


def enum_fixed(tier):
    """hand-written shapes: alternatives differing only in the position of a
    named match, empty alternatives, nested repetition with separators"""
    def e(sym, op="", sep=None, name=None, b=False):
        return {"sym": sym, "op": op, "sep": sep, "name": name, "bool": b}

    def it():
        yield {"rules": [{"name": "S", "alts": [[e("a", name="x"), e("b")], [e("a"), e("b", name="x"), e("b")], []],
                          "action": "list"}],
               "terms": ["a", "b"], "term_actions": ["a"], "max_len": 4}
        yield {"rules": [{"name": "S", "alts": [[e("A", "+", "b"), e("c", "?", name="o", b=True)]], "action": "one"},
                         {"name": "A", "alts": [[e("a", "*", name="many", b=True)], [e("c")]], "action": "none"}],
               "terms": ["a", "b", "c"], "term_actions": [], "max_len": 5}
        yield {"rules": [{"name": "S", "alts": [[e("A", "*", "b")], [e("b", "+")]], "action": "none"},
                         {"name": "A", "alts": [[e("a", "*")]], "action": "none"}],
               "terms": ["a", "b"], "term_actions": ["b"], "max_len": 5}
        yield {"rules": [{"name": "S", "alts": [[e("A", "+", "b")]], "action": "list"},
                         {"name": "A", "alts": [[e("a", "?", name="v")], [e("c", name="v", b=True)]], "action": "none"}],
               "terms": ["a", "b", "c"], "term_actions": ["a", "c"], "max_len": 5}
    return it()


SUBCHECKS = [
    SubCheck("fixed-shapes", run_case, enumerate=enum_fixed, shards={"quick": 4, "thorough": 4}),
    SubCheck("random", run_case, strategy=strat, examples={"quick": 2400, "thorough": 24000}),
]


def subcheck(name):
    return {s.name: s for s in SUBCHECKS}[name]
