"""C20 - a grammar split over imported files means the same as the flattened
grammar.  Oracle: own flattener (R-flat) following
docs/grammar_modularization.md; modular (files) vs flattened (one string)."""
import itertools
import os
import shutil
import tempfile

from hypothesis import strategies as st

from .. import glrcore as G, pgl, trees as T
from ..core import SubCheck
from .c09 import conv

import parglare
from parglare.exceptions import SRConflicts, RRConflicts, GrammarError

RULE = ("case = (2-4 grammar files with generated rules and declared terminals, import graph chain | diamond | cycle | "
        "generated, aliases, references by qualified names of any depth, overrides of rules and terminals in the root or "
        "an intermediate file, sub-directories with '../' import paths, optional repetition sugar on qualified references, optional "
        "KEYWORD terminal in the root file with glued inputs); the modular grammar (Grammar.from_file) and the "
        "flattened single-file grammar built by an own flattener are compared by LR (when both construct) and GLR on "
        "every token string up to 4 tokens, and grammar.nonterminals/terminals are compared with the expected set of "
        "symbols (each file once); non-trivial = >= 3 files with a diamond or a cycle, or an override; distinct by "
        "(files, input)")
ASSUMPTIONS = [
    "the flattener states docs/grammar_modularization.md: rules are referenced through import aliases, each file contributes its rules once, an override under any qualified name of an imported rule replaces it for every user; the outermost (closest to the root) override wins",
]

ALIASES = ["m", "n", "q", "lib"]


# --------------------------------------------------------------- the model
import re as _re

_REF = _re.compile(r"^(?P<base>[A-Za-z_][\w.]*)(?P<op>[*+?])?(?:\[(?P<sep>[\w.]+)\])?$")


def split_ref(ref):
    """'m.A*[T]' -> ('m.A', '*', 'T'); a named match 'n0=m.A' is the reference 'm.A'"""
    ref = ref.split("=", 1)[-1]
    if ref.startswith("'"):
        return ref, "", None          # inline string literal
    m = _REF.match(ref)
    return m.group("base"), m.group("op") or "", m.group("sep")

def file_path(f):
    return f["dir"] + f["name"] + ".pg" if f["dir"] else f["name"] + ".pg"


def rel_import(src, dst):
    """import path string written in file src for file dst"""
    sd, dd = src["dir"], dst["dir"]
    if sd == dd:
        return dst["name"] + ".pg"
    if not sd:
        return dd + dst["name"] + ".pg"
    if not dd:
        return "../" + dst["name"] + ".pg"
    return "../" + dd + dst["name"] + ".pg"


def emit_file(case, fi):
    f = case["files"][fi]
    lines = []
    for (ti, alias) in f["imports"]:
        tgt = case["files"][ti]
        p = rel_import(f, tgt)
        if alias == tgt["name"]:
            lines.append("import '%s';" % p)
        else:
            lines.append("import '%s' as %s;" % (p, alias))
    for name, alts in f["rules"]:
        lines.append("%s: %s;" % (name, " | ".join(" ".join(a) if a else "EMPTY" for a in alts)))
    if f["terms"]:
        lines.append("terminals")
        for name, text in f["terms"]:
            lines.append("%s: '%s';" % (name, text))
        if fi == 0 and case.get("kw"):
            lines.append("KEYWORD: /\\w+/;")
    return "\n".join(lines) + "\n"


class Flat:
    def __init__(self, case):
        self.case = case
        files = case["files"]
        # first path (alias chain) of every file in load order: depth first, imports in order
        self.prefix = {0: ()}
        self.paths = {0: [()]}

        def load(fi, pre):
            for (ti, alias) in files[fi]["imports"]:
                self.paths.setdefault(ti, []).append(pre + (alias,))
                if ti not in self.prefix:
                    self.prefix[ti] = pre + (alias,)
                    load(ti, pre + (alias,))
        load(0, ())
        # all distinct alias paths by which a file can be reached (bounded)
        self.all_paths = {fi: set() for fi in range(len(files))}

        def walk(fi, pre, depth):
            self.all_paths[fi].add(pre)
            if depth > 4:
                return
            for (ti, alias) in files[fi]["imports"]:
                walk(ti, pre + (alias,), depth + 1)
        walk(0, (), 0)
        self.local = []      # per file: {name: ("nt"|"t", payload)} for plain names
        self.overrides = []  # per file: {qualified name: ("nt"|"t", payload)}
        for f in files:
            loc, ov = {}, {}
            for name, alts in f["rules"]:
                (ov if "." in name else loc)[name] = ("nt", alts)
            for name, text in f["terms"]:
                (ov if "." in name else loc)[name] = ("t", text)
            self.local.append(loc)
            self.overrides.append(ov)
        # override map: target (file, name) -> (order, defining file, written name)
        self.ovmap = {}
        self.bad = None
        order = sorted(self.prefix, key=lambda fi: len(self.prefix[fi]))
        for rank, fi in enumerate(order):
            for qn in self.overrides[fi]:
                tgt = self.follow(fi, qn.split("."))
                if tgt is None:
                    self.bad = "override %s in %s has no target" % (qn, files[fi]["name"])
                    continue
                self.ovmap.setdefault(tgt, (rank, fi, qn))

    def follow(self, fi, parts):
        """file/plain-name reached from file fi by the alias path parts[:-1]"""
        files = self.case["files"]
        cur = fi
        for p in parts[:-1]:
            nxt = [ti for (ti, a) in files[cur]["imports"] if a == p]
            if not nxt:
                return None
            cur = nxt[0]
        if parts[-1] not in self.local[cur]:
            return None
        return (cur, parts[-1])

    def resolve(self, fi, ref):
        """symbol a reference written in file fi denotes: ("sym", file, name)
        or ("ov", file, written name)"""
        tgt = self.follow(fi, ref.split("."))
        if tgt is None:
            # a reference may itself use the written name of an override defined in this file
            if ref in self.overrides[fi]:
                return ("ov", fi, ref)
            return None
        if tgt in self.ovmap:
            _, ofi, qn = self.ovmap[tgt]
            return ("ov", ofi, qn)
        return ("sym", tgt[0], tgt[1])

    def flat_name(self, sym):
        kind, fi, name = sym
        pre = self.prefix.get(fi, ("unreached%d" % fi,))
        return "__".join(pre + (name.replace(".", "__"),) + (("OV",) if kind == "ov" else ()))

    def definition(self, sym):
        kind, fi, name = sym
        return (self.overrides if kind == "ov" else self.local)[fi][name]

    def build(self):
        """flattened grammar text + expected symbol counts, or None if some
        reference does not resolve"""
        files = self.case["files"]
        root_syms = [("sym", 0, n) for n, _ in files[0]["rules"] if "." not in n]
        if not root_syms:
            return None
        todo = list(root_syms)
        # root's override rules are root productions as well
        todo += [("ov", 0, n) for n, _ in files[0]["rules"] if "." in n]
        seen = []
        rules = []
        terms = {}
        literals = set()
        while todo:
            s = todo.pop(0)
            if s in seen:
                continue
            seen.append(s)
            kind, payload = self.definition(s)
            if kind == "t":
                terms[self.flat_name(s)] = payload
                continue
            alts = []
            for alt in payload:
                out = []
                for ref in alt:
                    base, op, sep = split_ref(ref)
                    if base.startswith("'"):
                        # an inline literal is a terminal of the grammar as a whole, named by its text
                        literals.add(base[1:-1])
                        out.append(ref)
                        continue
                    r = self.resolve(s[1], base)
                    if r is None:
                        return None
                    name = (ref.split("=", 1)[0] + "=" if "=" in ref else "") + self.flat_name(r) + op
                    if r not in seen:
                        todo.append(r)
                    if sep:
                        rs = self.resolve(s[1], sep)
                        if rs is None:
                            return None
                        name += "[%s]" % self.flat_name(rs)
                        if rs not in seen:
                            todo.append(rs)
                    out.append(name)
                alts.append(out)
            rules.append((self.flat_name(s), alts))
        start = self.flat_name(root_syms[0])
        rules.sort(key=lambda r: r[0] != start)
        lines = ["%s: %s;" % (n, " | ".join(" ".join(a) if a else "EMPTY" for a in alts)) for n, alts in rules]
        if terms:
            lines.append("terminals")
            for n, t in sorted(terms.items()):
                lines.append("%s: '%s';" % (n, t))
        kw = 0
        if self.case.get("kw"):
            # a KEYWORD terminal in the root file turns every word-like string terminal of the whole
            # grammar, whichever file declares it, into a whole-word match
            if not terms:
                lines.append("terminals")
            lines.append("KEYWORD: /\\w+/;")
            kw = 1
        return "\n".join(lines) + "\n", len(rules), len(terms) + kw + len(literals), \
            sorted(set(terms.values()) | literals)


def d13(flat):
    """finding D13: an override whose target file is reachable through >= 2
    import paths"""
    for (tfi, _), (_, ofi, qn) in flat.ovmap.items():
        if len(flat.all_paths[tfi]) >= 2:
            return True
    return False


def d19(case, flat):
    """finding D19: helper rules of the repetition sugar in multi-file grammars
    are named by the base symbol's qualified name plus the separator's *local*
    name and are created per referencing path"""
    for fi, f in enumerate(case["files"]):
        for _, alts in f["rules"]:
            for alt in alts:
                for ref in alt:
                    base, op, sep = split_ref(ref)
                    if not op:
                        continue
                    if sep:
                        return True            # collision / overridden separator
                    if len(flat.all_paths[fi]) >= 2:
                        return True            # helpers duplicated per path
                    tgt = flat.follow(fi, base.split("."))
                    if tgt is not None and len(flat.all_paths[tgt[0]]) >= 2:
                        return True
    return False


def conv20(v):
    """like c09.conv, but an object built for a rule with named matches is compared by its attributes only
    (its class is named after the rule, which is spelled differently in the flattened grammar)"""
    if isinstance(v, (list, tuple)):
        return tuple(conv20(x) for x in v)
    if hasattr(v, "_pg_children_names"):
        return ("OBJ", tuple(sorted((n, conv20(getattr(v, n))) for n in v._pg_children_names)))
    return v


def outcome_lr(p, text):
    out = G.run_parse_soft(p, text, 0.5)
    if out.kind == "ok":
        return ("ok", conv20(out.value))
    if out.kind == "syntax":
        return ("error", out.exc.location.start_position)
    return (out.kind, repr(out.exc)[:100])


def outcome_glr(p, text):
    out = G.run_parse(p, text)
    if out.kind == "syntax":
        return ("error", out.exc.location.start_position)
    if out.kind != "ok":
        return (out.kind, repr(out.exc)[:100])
    n, loop = G.forest_len(out.value)
    if loop:
        return ("cyclic",)
    try:
        vals = sorted({repr(conv20(p.call_actions(out.value[i]))) for i in range(min(n, 60))})
    except Exception as e:
        return ("call_actions raises", type(e).__name__, str(e)[:100])
    return ("ok", n if n <= 60 else "many", vals)


_PINS = None


def pins():
    global _PINS
    if _PINS is None:
        import json
        from .. import VERIF_DIR
        path = os.path.join(VERIF_DIR, "regress", "C20", "D13-pins.json")
        _PINS = json.load(open(path))["pins"] if os.path.exists(path) else {}
    return _PINS


def observe_modular(root, texts, max_len):
    """what the modular grammar does, as a comparable summary"""
    import hashlib
    import json
    try:
        gm = pgl.Grammar.from_file(root)
    except Exception as e:
        return "construction: %s" % type(e).__name__
    try:
        p = pgl.GLRParser(gm)
    except Exception as e:
        return "glr: %s" % type(e).__name__
    obs = [sorted(k for k in gm.nonterminals if k != "S'")]
    for n in range(0, max_len + 1):
        for w in itertools.product(texts, repeat=n):
            obs.append(outcome_glr(p, " ".join(w)))
    return hashlib.sha256(json.dumps(obs, default=repr).encode()).hexdigest()[:20]


def run_case(case, ctx):
    flat = Flat(case)
    built = flat.build()
    files_txt = {file_path(f): emit_file(case, i) for i, f in enumerate(case["files"])}
    info0 = dict(files=files_txt)
    tmp = tempfile.mkdtemp(prefix="pv-c20-")
    try:
        for path, txt in files_txt.items():
            full = os.path.join(tmp, path)
            os.makedirs(os.path.dirname(full), exist_ok=True)
            with open(full, "w") as f:
                f.write(txt)
        root = os.path.join(tmp, file_path(case["files"][0]))
        is_d13 = d13(flat)
        is_d19 = bool(case.get("sugar")) and d19(case, flat)
        if is_d19:
            ctx.label("sugar helper naming across files (D19 class)")
        if case.get("pin"):
            # pinned corpus of the D13 class: the recorded behaviour is required
            # exactly, so another defect in the same class is still reported
            from ..core import stable_hash
            key = stable_hash(files_txt)
            alltexts = sorted({t for f in case["files"] for _, t in f["terms"]})
            now = observe_modular(root, alltexts, 2)
            if ctx.__dict__.get("_recording") is not None:
                ctx._recording[key] = now
            elif key in pins():
                ctx.label("compared-with-recorded-behaviour")
                if pins()[key] != now:
                    ctx.fail("behaviour-differs-from-recorded-finding", recorded=pins()[key], now=now, **info0)
            for dp, _, fs in os.walk(tmp):
                for fn in fs:
                    if fn.endswith(".pgc"):
                        os.remove(os.path.join(dp, fn))
        try:
            gm = pgl.Grammar.from_file(root)
            err = None
        except GrammarError as e:
            gm, err = None, e
        except RecursionError as e:
            ctx.fail("modular-grammar-construction-recurses-forever", **info0)
        except Exception as e:
            if is_d13:
                ctx.known("D13", "modular-grammar-raises-other-exception", error=repr(e)[:300], **info0)
                return
            ctx.fail("modular-grammar-raises-other-exception", error=repr(e)[:300], **info0)
        if built is None or flat.bad:
            # some reference / override target does not exist: must be reported as a grammar error
            if gm is not None:
                ctx.fail("invalid-reference-accepted", reason=flat.bad or "unresolvable reference", **info0)
            ctx.label("invalid-grammars-rejected")
            return
        flat_text, n_rules, n_terms, texts = built
        info0["flattened"] = flat_text
        if gm is None:
            if is_d19:
                ctx.known("D19", "modular-grammar-rejected", error=str(err)[:200], **info0)
                return
            if is_d13:
                ctx.known("D13", "modular-grammar-rejected", error=str(err)[:200], **info0)
                return
            ctx.fail("modular-grammar-rejected-but-flattened-is-valid", error=str(err)[:200], **info0)
        try:
            gf = pgl.Grammar.from_string(flat_text)
        except Exception as e:
            ctx.fail("flattener-produced-invalid-grammar (harness)", error=repr(e)[:200], **info0)
        # ---- symbol sets: each file contributes its rules once -------------
        if case.get("sugar"):
            # helper rules of the repetition sugar count on both sides
            n_rules = len([k for k in gf.nonterminals if k != "S'"])
        nts = [k for k in gm.nonterminals if k != "S'"]
        tms = [k for k in gm.terminals if k not in ("EMPTY", "STOP")]
        # terminals declared in the root file are part of the grammar even when unused
        slack = len(case["files"][0]["terms"])
        if len(nts) != n_rules or not (n_terms <= len(tms) <= n_terms + slack):
            if is_d19:
                ctx.known("D19", "symbol-sets-differ", **info0)
            elif is_d13:
                ctx.known("D13", "symbol-sets-differ", **info0)
            else:
                ctx.fail("symbol-sets-differ-from-flattened-grammar", nonterminals=sorted(nts), terminals=sorted(tms),
                         expected_counts=[n_rules, n_terms], **info0)
        # ---- parsers -------------------------------------------------------
        parsers = []
        try:
            parsers.append(("GLR", pgl.GLRParser(gm), pgl.GLRParser(gf), outcome_glr))
        except Exception as e:
            if is_d13:
                ctx.known("D13", "glr-construction-raises", error=repr(e)[:200], **info0)
                return
            ctx.fail("glr-construction-raises", error=repr(e)[:200], **info0)

        def mk_lr(g):
            try:
                return pgl.Parser(g), None
            except (SRConflicts, RRConflicts) as e:
                return None, type(e).__name__
        # remove caches so that LR does not load the table GLR wrote (C12's subject)
        for dp, _, fs in os.walk(tmp):
            for fn in fs:
                if fn.endswith(".pgc"):
                    os.remove(os.path.join(dp, fn))
        lm, em = mk_lr(pgl.Grammar.from_file(root))
        lf, ef = mk_lr(pgl.Grammar.from_string(flat_text))
        if (lm is None) != (lf is None):
            if is_d19:
                ctx.known("D19", "lr-construction-differs", **info0)
            elif is_d13:
                ctx.known("D13", "lr-construction-differs", **info0)
            else:
                ctx.fail("lr-construction-differs", modular_lr=em, flattened_lr=ef, **info0)
        elif lm is not None:
            parsers.append(("LR", lm, lf, outcome_lr))
        nfiles = len(case["files"])
        shape = case.get("shape", "generated")
        interesting = bool(flat.ovmap) or (nfiles >= 3 and any(len(p) >= 2 for p in flat.all_paths.values()))
        ctx.label("shape:" + shape)
        if flat.ovmap:
            ctx.label("with-override")
        if case.get("sugar"):
            ctx.label("with-sugar-on-qualified-references")
        if is_d13:
            ctx.label("override-target-reachable-by-two-paths (D13 class)")
        dead = set()
        if case.get("kw"):
            ctx.label("with-KEYWORD-in-the-root-file")
        for n in range(0, case["max_len"] + 1):
            for w in itertools.product(texts, repeat=n):
                # with a KEYWORD terminal also tokens glued together (whole-word matching must reject them)
                for text in ([" ".join(w)] + (["".join(w), w[0] + " " + "".join(w[1:])] if case.get("kw") and n >= 2 else [])):
                    for who, pm, pf, oc in parsers:
                        if who in dead:
                            continue
                        a, b = oc(pm, text), oc(pf, text)
                        if "timeout" in (a[0], b[0]):
                            dead.add(who)
                            continue
                        if a != b:
                            if is_d19:
                                ctx.known("D19", "modular-differs-from-flattened", parser=who, input=text, **info0)
                                continue
                            if is_d13:
                                ctx.known("D13", "modular-differs-from-flattened", parser=who, input=text, **info0)
                                continue
                            ctx.fail("modular-differs-from-flattened", parser=who, input=text,
                                     modular_outcome=repr(a)[:300], flattened_outcome=repr(b)[:300], **info0)
                    ctx.label("inputs")
                    if interesting and n >= 1:
                        ctx.nontrivial([files_txt, text], sample={"files": files_txt, "flattened": flat_text, "input": text})
    finally:
        shutil.rmtree(tmp, ignore_errors=True)


# ---------------------------------------------------------------- strategies
@st.composite
def cases(draw):
    nfiles = draw(st.integers(2, 4))
    shape = draw(st.sampled_from(["chain", "diamond", "cycle", "generated"]))
    if shape == "diamond":
        nfiles = 4
    names = ["root", "fa", "fb", "fc"][:nfiles]
    dirs = [""] + [draw(st.sampled_from(["", "", "sub/", "lib/"])) for _ in range(nfiles - 1)]
    files = [{"name": names[i], "dir": dirs[i], "imports": [], "rules": [], "terms": []} for i in range(nfiles)]
    edges = []
    if shape == "chain":
        edges = [(i, i + 1) for i in range(nfiles - 1)]
    elif shape == "diamond":
        edges = [(0, 1), (0, 2), (1, 3), (2, 3)]
    elif shape == "cycle":
        edges = [(i, i + 1) for i in range(nfiles - 1)] + [(nfiles - 1, 1 if nfiles > 2 else 0)]
    else:
        for i in range(nfiles):
            for j in range(1, nfiles):
                if i != j and draw(st.integers(0, 2)) == 0:
                    edges.append((i, j))
        for j in range(1, nfiles):          # everything reachable
            if not any(b == j for a, b in edges):
                edges.append((draw(st.integers(0, j - 1)), j))
    for a, b in edges:
        alias = files[b]["name"] if draw(st.integers(0, 1)) else draw(st.sampled_from(ALIASES))
        if alias in [x[1] for x in files[a]["imports"]]:
            alias = files[b]["name"]
        if alias not in [x[1] for x in files[a]["imports"]]:
            files[a]["imports"].append((b, alias))
    # symbols
    tcount = [0]
    for i, f in enumerate(files):
        for k in range(draw(st.integers(1, 2))):
            tcount[0] += 1
            f["terms"].append(("T%d" % k if draw(st.integers(0, 2)) else "T", "t%s" % "abcdefghij"[tcount[0]]))
        f["terms"] = list(dict(f["terms"]).items())
        f["rule_names"] = ["S"] + (["A"] if draw(st.booleans()) else [])

    def refs_from(fi, depth=0):
        """all (reference text) usable in file fi"""
        out = [n for n in files[fi]["rule_names"]] + [n for n, _ in files[fi]["terms"]]
        if depth < 2:
            for (ti, alias) in files[fi]["imports"]:
                out += ["%s.%s" % (alias, r) for r in refs_from(ti, depth + 1)]
        return out
    sugar = draw(st.integers(0, 2)) == 0      # repetition / optional sugar on (qualified) references
    empty_alts = draw(st.integers(0, 2)) == 0
    lit_files = [draw(st.booleans()) for _ in files] if draw(st.integers(0, 2)) == 0 else [False] * len(files)
    if any(lit_files):
        # terminals U<k> declared in imported files (never in the root, whose names are not qualified)
        for k, f in enumerate(files[1:], 1):
            if draw(st.booleans()):
                f["terms"].append(("U%d" % k, "u%d" % k))
    # named matches in some alternatives of some files (per file: the root may have none while an imported file has)
    named_files = [draw(st.booleans()) for _ in files] if draw(st.integers(0, 2)) == 0 else [False] * len(files)
    for i, f in enumerate(files):
        pool = refs_from(i)
        for rn in f["rule_names"]:
            alts = []
            for _ in range(draw(st.integers(1, 2))):
                alt = draw(st.lists(st.sampled_from(pool), min_size=1, max_size=3))
                if sugar:
                    for k in range(len(alt)):
                        op = draw(st.sampled_from(["", "", "", "*", "+", "?"]))
                        if op:
                            alt[k] += op
                            tn_ = [n for n, _ in f["terms"]]
                            if op != "?" and draw(st.integers(0, 2)) == 0:
                                alt[k] += "[%s]" % draw(st.sampled_from(tn_))
                alts.append(alt)
            if lit_files[i]:
                # some references to this file's own terminals become inline string literals: a fresh text, or
                # a text that is the *name* of a terminal declared in another file
                own = {n for n, _ in f["terms"]}
                pool_l = ["l%s" % "abcdefghij"[(i * 3 + k) % 10] for k in range(2)] + \
                    [u for u in ("U1", "U2", "U3") if u not in own]
                alts = [["'%s'" % draw(st.sampled_from(pool_l)) if r in own and draw(st.integers(0, 2)) == 0 else r
                         for r in alt] for alt in alts]
            if named_files[i]:
                # named matches (the rule then builds objects through the default obj action)
                alts = [["n%d=%s" % (k, r) if not r[-1:] in "*+?]" and draw(st.integers(0, 1)) else r
                         for k, r in enumerate(alt)] for alt in alts]
            if empty_alts and draw(st.integers(0, 3)) == 0:
                alts.append([])          # an explicit EMPTY alternative
            # keep rules productive: one alternative of terminals only
            tn = [n for n, _ in f["terms"]]
            alts.append([draw(st.sampled_from(tn))])
            f["rules"].append((rn, alts))
    # overrides
    if draw(st.integers(0, 2)) == 0:
        fi = draw(st.sampled_from([0] + [i for i in range(nfiles) if files[i]["imports"]]))
        cands = [r for r in refs_from(fi) if "." in r]
        if cands:
            tgt = draw(st.sampled_from(cands))
            if tgt.rsplit(".", 1)[1].startswith("T"):
                files[fi]["terms"].append((tgt, "z%s" % "xyw"[draw(st.integers(0, 2))]))
            else:
                tn = [n for n, _ in files[fi]["terms"] if "." not in n]
                files[fi]["rules"].append((tgt, [[draw(st.sampled_from(tn))], [tn[0], tn[0]]]))
    for f in files:
        del f["rule_names"]
    return {"files": files, "shape": shape, "sugar": sugar, "named": any(named_files), "literals": any(lit_files), "empty_alts": empty_alts, "kw": draw(st.integers(0, 2)) == 0,
            "max_len": (4 if tcount[0] <= 4 else 3) - (1 if sugar else 0)}


def strat(tier):
    return cases()


def enum_multipath_overrides(tier):
    """deterministic family: diamond and cycles with an override written under
    every possible qualified name, in the root or an intermediate file"""
    def base(shape):
        def f(name, imports):
            return {"name": name, "dir": "", "imports": imports,
                    "rules": [["S", [["S", "T"], ["T"]]]], "terms": [["T", "t" + name[-1]]]}
        if shape == "diamond":
            return [f("root", [[1, "fa"], [2, "fb"]]), f("fa", [[3, "fc"]]), f("fb", [[3, "fc"]]), f("fc", [])]
        if shape == "cycle2":
            return [f("root", [[1, "fa"]]), f("fa", [[2, "fb"]]), f("fb", [[1, "fa"]])]
        return [f("root", [[1, "fa"]]), f("fa", [[0, "root"]])]

    def it():
        import copy
        for shape in ("diamond", "cycle2", "cycle-root"):
            files0 = base(shape)
            n = len(files0)
            # qualified names up to depth 3 from each file
            def names(fi, depth):
                out = []
                for (ti, alias) in files0[fi]["imports"]:
                    out.append((alias + ".S", ti))
                    out.append((alias + ".T", ti))
                    if depth < 3:
                        out += [(alias + "." + q, t) for q, t in names(ti, depth + 1)]
                return out
            for fi in range(n):
                for qn, _ in names(fi, 1):
                    for use in (0, 1):
                        files = copy.deepcopy(files0)
                        if qn.endswith(".T"):
                            files[fi]["terms"].append([qn, "zz"])
                        else:
                            files[fi]["rules"].append([qn, [["T", "T"]]])
                        if use:
                            # the root uses the imported start rule through its first import
                            a = files[0]["imports"][0][1]
                            files[0]["rules"][0][1].append([a + ".S"])
                        yield {"files": files, "shape": shape, "max_len": 2, "pin": True}
    return it()


SUBCHECKS = [
    SubCheck("override-multipath-pinned", run_case, enumerate=enum_multipath_overrides),
    SubCheck("generated-import-graphs", run_case, strategy=strat, examples={"quick": 1280, "thorough": 12000}),
]


def subcheck(name):
    return {s.name: s for s in SUBCHECKS}[name]
