"""C05 - table construction terminates and is a faithful LR(1)-family table.

Oracle: own canonical LR(1) collection and LALR(1) lookaheads by core merging
(pv.ref_lr).  See DESIGN section 6/C05."""
from hypothesis import strategies as st

from .. import budget, gen
from ..cfg import CFG
from ..core import SubCheck, Violation
from ..ref_lr import RefLR, TooBig, END
from .. import pgl

RULE = ("case = (productive grammar, table kind LALR|SLR, start production main|LAYOUT rule); "
        "grammars: exhaustive tiny space (1-2 non-terminals) + random small/medium + pinned classics; "
        "non-trivial = the grammar has a nullable non-terminal, or LALR(1) lookaheads are a strict "
        "subset of FOLLOW for some completed item, or canonical LR(1) is conflict-free while "
        "LALR(1) merging is not (refused merge); distinct by (grammar, table, start)")
ASSUMPTIONS = [
    "reference canonical LR(1)/LALR(1) construction in pv/ref_lr.py is correct (textbook fixpoints, cross-checked by the LR-vs-chart differentials of C01/C04)",
    "termination is decided against a reference-derived line budget, not proved",
]

LAYOUT_NAMES = {"S": "LAYOUT", "A": "LA", "B": "LB", "C": "LC", "D": "LD", "E": "LE",
                "a": "x", "b": "y", "c": "z", "d": "v", "e": "w", "f": "u", "g": "t"}


def layout_variant(gjson):
    """rename a generated grammar so that it can be appended as a LAYOUT rule"""
    r = LAYOUT_NAMES
    return {"nts": [r[n] for n in gjson["nts"]],
            "terms": [[r[t[0]], t[1], r[t[2]]] for t in gjson["terms"]],
            "prods": [[r[l], [r[s] for s in rhs]] for l, rhs in gjson["prods"]]}


def grammar_text(case):
    g = CFG.from_json(case["g"])
    if case.get("lg"):
        lg = CFG.from_json(case["lg"])
        both = CFG(g.nts + lg.nts, g.terms + lg.terms, g.prods + lg.prods)
        return both.to_parglare()
    return g.to_parglare()


def _setup():
    import parglare.tables  # noqa
    import parglare.closure  # noqa
    budget.watch_modules(budget.TABLE_MODULES)


def table_budget(ref_work):
    return 1500 * ref_work + 400_000


def run_case(case, ctx):
    kind = case["table"]
    start = case["start"]
    ref_cfg = CFG.from_json(case["lg"] if start == "layout" else case["g"])
    try:
        ref = RefLR(ref_cfg, max_states=400)
    except TooBig:
        ctx.label("discarded:reference-too-big")
        return
    text = grammar_text(case)
    try:
        grammar = pgl.Grammar.from_string(text)
    except Exception as e:  # the generator only emits valid grammars
        ctx.fail("grammar-rejected", text=text, error=repr(e))
    start_prod = 1 if start == "main" else grammar.get_production_id("LAYOUT")
    B = table_budget(ref.work)
    if case.get("warm") and case.get("lg"):
        # what Parser() does: two tables (layout, then main) are built from one Grammar object; whatever
        # the first construction leaves on the grammar must not leak into the second
        other = grammar.get_production_id("LAYOUT") if start == "main" else 1
        try:
            with budget.steps(max(B, 3000000)):
                pgl.create_table(grammar, pgl.ITEMSETS[case.get("warm_table", kind)], other, False, False)
            ctx.label("table-for-the-other-start-production-built-first")
        except (budget.StepBudgetExceeded, Exception):
            grammar = pgl.Grammar.from_string(text)
            start_prod = 1 if start == "main" else grammar.get_production_id("LAYOUT")
    try:
        with budget.steps(B) as s:
            table = pgl.create_table(grammar, pgl.ITEMSETS[kind], start_prod, False, False)
    except budget.StepBudgetExceeded as e:
        ctx.fail("construction-diverges", text=text, table=kind, start=start,
                 steps=e.steps, budget=B, ref_work=ref.work)
    except Exception as e:
        ctx.fail("construction-raises", text=text, table=kind, start=start, error=repr(e))
    ctx.metric_max("max_steps_over_budget", s.count / B)

    pidx = pgl.prod_index_map(ref_cfg)
    las, lalr_acts = ref.lalr()
    # ---- (2) simulation against canonical LR(1) -------------------------
    seen = set()
    core_of = {}
    todo = [(table.states[0], 0)]
    while todo:
        ps, cs = todo.pop()
        if (ps.state_id, cs) in seen:
            continue
        seen.add((ps.state_id, cs))
        core = ref.cores[cs]
        core_of.setdefault(ps.state_id, set()).add(core)
        cell = pgl.cell_by_name(ps)
        gotos = pgl.gotos_by_name(ps)
        for t, acts in ref.lr1_actions(cs).items():
            pacts = cell.get(t, [])
            for a in acts:
                if a[0] == "s":
                    sh = [x for x in pacts if x.action == pgl.SHIFT]
                    if len(sh) != 1:
                        ctx.fail("missing-shift", text=text, table=kind, start=start,
                                 state=ps.state_id, terminal=t)
                    todo.append((sh[0].state, ref.trans[cs][t]))
                elif a[0] == "acc":
                    if not any(x.action == pgl.ACCEPT for x in pacts):
                        ctx.fail("missing-accept", text=text, table=kind, start=start,
                                 state=ps.state_id)
                else:
                    want = ref.prods[a[1]]
                    if not any(x.action == pgl.REDUCE and pgl.prod_key(x.prod) == (want[0], tuple(want[1]))
                               for x in pacts):
                        ctx.fail("missing-reduce", text=text, table=kind, start=start,
                                 state=ps.state_id, terminal=t, production=[want[0], list(want[1])])
        for sym, nxt in ref.trans[cs].items():
            if ref_cfg.is_nt(sym):
                if sym not in gotos:
                    ctx.fail("missing-goto", text=text, table=kind, start=start,
                             state=ps.state_id, symbol=sym)
                todo.append((gotos[sym], nxt))
        # ---- (3) LALR: no reduction outside the LALR(1) lookahead ---------
        if kind == "LALR":
            items = las[core]
            for t, pacts in cell.items():
                for x in pacts:
                    if x.action != pgl.REDUCE:
                        continue
                    k = pgl.prod_key(x.prod)
                    p = pidx.get(k)
                    if p is None or t not in items.get((p, len(k[1])), ()):
                        ctx.fail("reduce-outside-lalr1", text=text, table=kind, start=start,
                                 state=ps.state_id, terminal=t, production=[k[0], list(k[1])],
                                 lalr1=sorted(items.get((p, len(k[1])), ())) if p is not None else None)
    # ---- (4) conflicts only where the reference has them ----------------
    ref_acts = lalr_acts if kind == "LALR" else ref.slr_actions()
    ref_conf = RefLR.conflicts(ref_acts)
    reported = list(table.sr_conflicts) + list(table.rr_conflicts)
    if not ref_conf and reported:
        c = reported[0]
        ctx.fail("conflict-on-conflict-free-grammar", text=text, table=kind, start=start,
                 state=c.state.state_id, terminal=c.term.name)
    for c in reported:
        cores = core_of.get(c.state.state_id)
        if cores is None:
            continue  # unreachable state: nothing claimed
        if not any((core, c.term.name) in ref_conf for core in cores):
            ctx.fail("conflict-where-reference-has-none", text=text, table=kind, start=start,
                     state=c.state.state_id, terminal=c.term.name)

    # ---- statistics ------------------------------------------------------
    ctx.label("table:" + kind)
    ctx.label("start:" + start)
    for l in ref_cfg.labels():
        ctx.label(l)
    nontriv = bool(ref_cfg.nullable())
    fol = ref.follow()
    strict = False
    for core, items in las.items():
        for (p, d), ls in items.items():
            if p >= 0 and d == len(ref.rhs(p)) and ls < fol[ref.lhs(p)]:
                strict = True
    if strict:
        ctx.label("lalr-lookahead-strict-subset-of-follow")
        nontriv = True
    lr1_ok = ref.lr1_conflict_free()
    if lr1_ok and ref_conf and kind == "LALR":
        ctx.label("lr1-but-not-lalr1 (refused merge)")
        nontriv = True
    if not ref_conf:
        ctx.label("reference-conflict-free")
    if reported:
        ctx.label("conflicts-reported")
    if len(table.states) > len(set(ref.cores)):
        ctx.label("split-states")
    if nontriv:
        ctx.nontrivial([case["g"], case.get("lg"), kind, start],
                       sample={"grammar": text, "table": kind, "start": start,
                               "parglare_states": len(table.states),
                               "lr1_states": len(ref.states), "lalr_states": len(set(ref.cores)),
                               "steps": s.count, "budget": B})


# --------------------------------------------------------------- strategies
def _cases(gstrat):
    @st.composite
    def c(draw):
        g = draw(gstrat)
        start = draw(st.sampled_from(["main", "main", "layout"]))
        lg = None
        if start == "layout" or draw(st.integers(0, 4)) == 0:
            lg = layout_variant(draw(gen.cfgs(max_nts=3, max_alts=3, max_rhs=3)))
        table = draw(st.sampled_from(["LALR", "SLR"]))
        return {"g": g, "lg": lg, "table": table, "start": start, "warm": draw(st.booleans()),
                "warm_table": draw(st.sampled_from(["LALR", "SLR", "SLR"]))}
    return c()


def strat_small(tier):
    return _cases(gen.cfgs(max_nts=3, max_alts=3, max_rhs=3))


def strat_refused(tier):
    @st.composite
    def c(draw):
        g = draw(gen.refused_merge_cfgs())
        table = draw(st.sampled_from(["LALR", "LALR", "SLR"]))
        if draw(st.integers(0, 3)) == 0:
            return {"g": gen.CLASSICS["sss"], "lg": layout_variant(g), "table": table, "start": "layout"}
        return {"g": g, "lg": None, "table": table, "start": "main"}
    return c()


def strat_chain(tier):
    return _cases(gen.nullable_chain_cfgs())


def strat_medium(tier):
    return _cases(gen.cfgs(max_nts=6, max_alts=3, max_rhs=4, max_terms=5))


def enum_tiny(tier):
    level = 1 if tier == "quick" else 2
    stride = 2 if tier == "quick" else 1

    def it():
        for i, g in enumerate(gen.tiny_grammars(level)):
            if i % stride:
                continue
            for table in ("LALR", "SLR"):
                yield {"g": g, "lg": None, "table": table, "start": "main"}
    return it()


def enum_classics(tier):
    def it():
        for name, g in gen.CLASSICS.items():
            for table in ("LALR", "SLR"):
                yield {"g": g, "lg": None, "table": table, "start": "main"}
                yield {"g": gen.CLASSICS["sss"], "lg": layout_variant(g), "table": table,
                       "start": "layout"}
                # both tables from one Grammar object, in both orders
                yield {"g": gen.CLASSICS["sss"], "lg": layout_variant(g), "table": table, "start": "layout",
                       "warm": True, "warm_table": table}
                yield {"g": g, "lg": layout_variant(gen.CLASSICS["sss"]), "table": table, "start": "main",
                       "warm": True, "warm_table": table}
    return it()


SUBCHECKS = [
    SubCheck("classics", run_case, enumerate=enum_classics, setup=_setup, shards={"quick": 4, "thorough": 4}),
    SubCheck("tiny-exhaustive", run_case, enumerate=enum_tiny, setup=_setup),
    SubCheck("small-random", run_case, strategy=strat_small, setup=_setup,
             examples={"quick": 6400, "thorough": 100000}),
    SubCheck("refused-merge-family", run_case, strategy=strat_refused, setup=_setup,
             examples={"quick": 4800, "thorough": 60000}),
    SubCheck("nullable-chain-family", run_case, strategy=strat_chain, setup=_setup,
             examples={"quick": 3200, "thorough": 40000}),
    SubCheck("medium-random", run_case, strategy=strat_medium, setup=_setup,
             examples={"quick": 3200, "thorough": 40000}),
]


# thorough tier: coverage-guided campaigns (atheris) on the same run_case, see pv/fuzz.py
FUZZ = [("small-random", 30000)]

def subcheck(name):
    return {s.name: s for s in SUBCHECKS}[name]
