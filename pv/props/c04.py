"""C04 - the LR parser is sound always and exact when its table is
deterministic.  Oracle: Earley recogniser / derivation enumerator."""
from hypothesis import strategies as st

from .. import gen, glrcore as G, pgl, trees as T
from ..cfg import CFG
from ..core import SubCheck
from ..ref_chart import Chart, Lexicon

import parglare
from parglare.exceptions import SRConflicts, RRConflicts

RULE = ("case = (productive grammar, lexicon L0|L1, layout fillers); all 8 combinations of prefer_shifts x "
        "prefer_shifts_over_empty x {LALR,SLR} are tried, a combination is in domain when Parser() constructs; every "
        "token string up to 4-5 tokens (+ junk) is parsed by each constructed parser; non-trivial = constructed "
        "parser together with an accepted input of >= 2 tokens (rejected inputs are counted in the labels only); "
        "distinct by (grammar, options, input); deterministic-class parsers (no strategy, every cell a single action) are counted separately")
ASSUMPTIONS = [
    "reference recogniser/enumerator (pv/ref_chart.py) is correct",
    "exactness is asserted only for the non-overlapping lexicon L0 (longest-match tokenisation may legitimately reject sentences of an overlapping lexicon)",
]

COMBOS = [(ps, pse, tb) for ps in (False, True) for pse in (False, True) for tb in ("LALR", "SLR")]


def health_gate(labels, tier):
    tot = sum(v.get("parsers-constructed", 0) for v in labels.values())
    det = sum(v.get("parsers-deterministic-class", 0) for v in labels.values())
    if tot and det / tot < 0.10:
        return "deterministic-class share %.3f < 0.10 (generator drifted)" % (det / tot)
    return None


def run_case(case, ctx):
    cfg = CFG.from_json(case["g"])
    lexkind = case["lex"]
    lex = Lexicon(cfg.terms)
    # optionally a LAYOUT rule that matches exactly what the default ws does: the language and every table
    # property stay what they are, but the parser now builds two tables from one Grammar object
    text_g = cfg.to_parglare(extra_rules="LAYOUT: LI | LAYOUT LI | EMPTY;\nLI: WS;", extra_terminals="WS: /\\s+/;") \
        if case.get("layout_rule") else cfg.to_parglare()
    if lexkind == "L0":
        inputs = [G.render(w, case["fill"], k)
                  for k, w in enumerate(G.l0_inputs(cfg, case["max_len"], junk_upto=2))]
    else:
        inputs = list(G.char_inputs("ab", case["max_len"]))
    charts = [(t, Chart(cfg, lex, t)) for t in inputs]
    members = {t: c.accepts() for t, c in charts}
    glr = None
    for ps, pse, tb in COMBOS:
        opts = dict(prefer_shifts=ps, prefer_shifts_over_empty=pse, tables=tb)
        info0 = dict(grammar=text_g, options=opts)
        try:
            grammar = pgl.Grammar.from_string(text_g)
            parser = pgl.Parser(grammar, tables=pgl.TABLES[tb], prefer_shifts=ps,
                                prefer_shifts_over_empty=pse, build_tree=True)
        except (SRConflicts, RRConflicts):
            ctx.label("out-of-domain:conflicts")
            continue
        except Exception as e:
            ctx.fail("lr-construction-raises", error=repr(e), **info0)
        ctx.label("parsers-constructed")
        det = (not ps) and (not pse) and pgl.deterministic_table(parser.table) and lexkind == "L0"
        if det:
            ctx.label("parsers-deterministic-class")
            if glr is None:
                glr = {}
            if tb not in glr:
                g2 = pgl.Grammar.from_string(text_g)
                glr[tb] = pgl.GLRParser(g2, tables=pgl.TABLES[tb])
        for text, chart in charts:
            info = dict(input=text, **info0)
            out = G.run_parse_soft(parser, text, 0.3)
            member = members[text]
            if out.kind == "timeout":
                # an LR parser whose conflicts were resolved by a strategy can
                # reduce forever on a cyclic grammar; C04 claims nothing about
                # termination, so this parser is only counted and abandoned
                ctx.label("lr-parse-slow-or-nonterminating:%s (not C04's subject)"
                          % ("cyclic-grammar" if cfg.is_cyclic() else "ACYCLIC-grammar"))
                break
            if out.kind == "other":
                if isinstance(out.exc, parglare.DisambiguationError) and lexkind == "L1":
                    ctx.label("disambiguation-error")
                    continue
                ctx.fail("lr-raises-other-exception", error=repr(out.exc), member=member, **info)
            if out.kind == "ok":
                ctx.label("accepted")
                if not member:
                    ctx.fail("lr-accepts-non-sentence", **info)
                try:
                    t = T.canon(out.value)
                except Exception as e:
                    ctx.fail("lr-result-is-not-a-tree", error=repr(e), **info)
                why = T.check_derivation(t, cfg, chart)
                if why:
                    ctx.fail("lr-tree-is-not-a-derivation", why=why, **info)
                if len(T.canon_leaves(t)) >= 2:
                    ctx.nontrivial([case["g"], ps, pse, tb, text],
                                   sample={"grammar": text_g, "options": opts, "input": text,
                                           "verdict": "accepted, tree is a derivation", "deterministic": det})
            else:
                ctx.label("rejected")
            if det:
                if member and out.kind != "ok":
                    ctx.fail("deterministic-lr-rejects-sentence", **info)
                if member:
                    n = chart.sentence_count() if not cfg.is_cyclic() else None
                    if cfg.is_cyclic() and chart.infinitely_ambiguous():
                        ctx.fail("deterministic-table-but-ambiguous-sentence", derivations="infinite", **info)
                    if n is None:
                        n = chart.sentence_count()
                    if n != 1:
                        ctx.fail("deterministic-table-but-ambiguous-sentence", derivations=n, **info)
                    gout = G.run_parse(glr[tb], text)
                    if gout.kind != "ok":
                        ctx.fail("glr-rejects-where-deterministic-lr-accepts", error=repr(gout.exc), **info)
                    gn, loop = G.forest_len(gout.value)
                    if loop or gn != 1:
                        ctx.fail("glr-forest-not-single-tree-on-deterministic-table", len=gn, **info)
                    gt = T.canon(gout.value[0])
                    if gt != t:
                        ctx.fail("glr-tree-differs-from-lr-tree", lr=repr(t), glr=repr(gt), **info)
                    ctx.label("deterministic-sentences-compared-with-glr")
    for l in cfg.labels():
        ctx.label("grammar:" + l)


FILL = st.lists(st.sampled_from(G.FILLERS), min_size=3, max_size=6)


def _case(gstrat, lex):
    @st.composite
    def c(draw):
        g = draw(gstrat)
        nterm = len(g["terms"])
        return {"g": g, "lex": lex, "fill": draw(FILL), "layout_rule": lex == "L0" and draw(st.integers(0, 3)) == 0,
                "max_len": (5 if nterm <= 2 else 4) if lex == "L0" else 5}
    return c()


def strat_l0(tier):
    return _case(gen.cfgs(max_nts=3, max_alts=3, max_rhs=3), "L0")


def strat_l0_big(tier):
    return _case(gen.cfgs(max_nts=4, max_alts=2, max_rhs=4, max_terms=3), "L0")


def strat_chain(tier):
    return _case(gen.nullable_chain_cfgs(), "L0")


def strat_refused(tier):
    @st.composite
    def c(draw):
        g = draw(gen.refused_merge_cfgs())
        return {"g": g, "lex": "L0", "fill": draw(FILL), "max_len": 3}
    return c()


def strat_l1(tier):
    return _case(gen.cfgs(max_nts=3, max_alts=3, max_rhs=3, min_terms=2, max_terms=4,
                          terms_pool=gen.L1_TERMS), "L1")


def enum_classics(tier):
    def it():
        for name, g in gen.CLASSICS.items():
            yield {"g": g, "lex": "L0", "fill": ["", " ", "\n"],
                   "max_len": 5 if len(g["terms"]) <= 2 else 4}
    return it()


def enum_tiny(tier):
    stride = 12 if tier == "quick" else 1

    def it():
        for i, g in enumerate(gen.tiny_grammars(1 if tier == "quick" else 2)):
            if i % stride:
                continue
            yield {"g": g, "lex": "L0", "fill": ["", " "], "max_len": 5}
    return it()


SUBCHECKS = [
    SubCheck("classics", run_case, enumerate=enum_classics),
    SubCheck("tiny-exhaustive", run_case, enumerate=enum_tiny),
    SubCheck("random-L0", run_case, strategy=strat_l0, examples={"quick": 2400, "thorough": 24000}),
    SubCheck("random-L0-larger", run_case, strategy=strat_l0_big, examples={"quick": 640, "thorough": 6400}),
    SubCheck("nullable-chain-family", run_case, strategy=strat_chain, examples={"quick": 1280, "thorough": 12800}),
    SubCheck("refused-merge-family", run_case, strategy=strat_refused, examples={"quick": 320, "thorough": 3200}),
    SubCheck("random-L1-overlapping", run_case, strategy=strat_l1, examples={"quick": 640, "thorough": 6400}),
]


# thorough tier: coverage-guided campaigns (atheris) on the same run_case, see pv/fuzz.py
FUZZ = [("random-L0", 20000)]

def subcheck(name):
    return {s.name: s for s in SUBCHECKS}[name]
