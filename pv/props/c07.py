"""C07 - token choice follows the documented lexical disambiguation order.
Oracle: executable statement of the documented rules (R-lex)."""
import re

from hypothesis import strategies as st

from .. import glrcore as G, pgl, trees as T
from ..core import SubCheck

import parglare
from parglare.exceptions import SRConflicts, RRConflicts

RULE = ("case = (2-6 terminals mixing string, regex and custom Python recognizers with priorities from {5,10,15}, "
        "prefer marks, nofinish on strings, optional KEYWORD rule, ignore_case; grouped into 1-3 selector states with "
        "different expected sets; 25 probe texts); LR (lexical disambiguation on) must pick the token the documented "
        "rules pick / raise DisambiguationError with exactly the remaining tokens / SyntaxError; GLR (disambiguation "
        "off) must pursue exactly the matching expected terminals of the highest matching priority; non-trivial = "
        ">= 2 expected terminals match at the position (strong: decided at rule 2, 3 or 4); distinct by (terminal "
        "set, group, text)")
ASSUMPTIONS = [
    "R-lex (pv/props/c07.py ref_choice) states docs/disambiguation.md: priority, then string/keyword over other recognizers, then longest match, then prefer, else DisambiguationError",
    "an explicit nofinish mark on a string terminal removes its 'most specific' privilege (documented use: let it compete by length with regexes); positions where a nofinish string and another string terminal both match are outside the model and skipped",
    "an explicit nofinish mark on a regex/custom terminal only disables a scanning shortcut and is modelled as having no effect",
    "explicit finish marks on non-string terminals are not generated (their effect depends on scan order by design)",
]

# name, kind, value
POOL = [
    ("sa", "str", "a"), ("sab", "str", "ab"), ("sabc", "str", "abc"), ("sb", "str", "b"),
    ("sfor", "str", "for"), ("sAB", "str", "AB"), ("sfo", "str", "fo"),
    ("rap", "re", "a+"), ("rabo", "re", "ab?"), ("rab", "re", "[ab]+"), ("rabc", "re", "abc?"),
    ("rw", "re", r"\w+"), ("raz", "re", "[a-z]+"), ("ra", "re", "a"), ("ralt", "re", "a|ab"),
    ("rdig", "re", r"[a-z]+\d"), ("rfor", "re", "for"),
    ("cab", "custom", "ab"), ("cap", "custom", "a+"), ("cw", "custom2", r"\w\w"),
    # names that sort after / before the string terminals' names (the scan order breaks ties by name)
    ("zw", "re", r"\w+"), ("zaz", "re", "[a-z]+"), ("aw", "re", r"\w+"), ("zabcd", "str", "abcd"), ("aaab", "str", "aab"),
]
TEXTS = ["a", "ab", "abc", "abcd", "aab", "aa", "b", "ba", "abab", "A", "AB", "Ab", "aB", "for", "fork", "fo",
         "for1", "fora", "f", "c", "1", "a1", "ab1", "", " a", "a b", "abc1", "FOR", "For", "FORK", "For1", "ABCD",
         # after a blank: the only place where a keyword (whole word) can match behind the selector digit
         " for", " FOR", " fork", " ab", " AB", " abcd", " fo r", " for1"]
SELECTORS = ["1", "2", "3"]


def custom_recognizer(kind, pattern):
    rx = re.compile(pattern)
    if kind == "custom":
        def rec(input, pos):
            m = rx.match(input, pos)
            if m and m.group():
                return m.group()
    else:
        def rec(context, input, pos):
            m = rx.match(input, pos)
            if m and m.group():
                return m.group()
    return rec


def term_decl(t, case):
    name, kind, value = POOL[t["i"]]
    meta = []
    if t["prior"] != 10:
        meta.append(str(t["prior"]))
    if t["prefer"]:
        meta.append("prefer")
    if t.get("nofinish"):
        meta.append("nofinish")
    m = " {%s}" % ", ".join(meta) if meta else ""
    if kind == "str":
        return "%s: '%s'%s;" % (name, value, m)
    if kind == "re":
        return "%s: /%s/%s;" % (name, value, m)
    return "%s: %s;" % (name, m.strip())


def build(case):
    terms = case["terms"]
    lines = []
    alts = []
    for gi, group in enumerate(case["groups"]):
        alts.append("k%d G%d" % (gi, gi))
    lines.append("S: %s;" % " | ".join(alts))
    for gi, group in enumerate(case["groups"]):
        lines.append("G%d: %s;" % (gi, " | ".join(POOL[terms[j]["i"]][0] for j in group)))
    lines.append("terminals")
    for gi in range(len(case["groups"])):
        lines.append("k%d: '%s';" % (gi, SELECTORS[gi]))
    used = sorted({j for g in case["groups"] for j in g})
    for j in used:
        lines.append(term_decl(terms[j], case))
    if case["keyword"]:
        lines.append(r"KEYWORD: /[a-zA-Z]+/;")
    text = "\n".join(lines) + "\n"
    recs = {}
    for j in used:
        name, kind, value = POOL[terms[j]["i"]]
        if kind.startswith("custom"):
            recs[name] = custom_recognizer(kind, value)
    return text, recs


def match_len(t, case, text, pos):
    name, kind, value = POOL[t["i"]]
    ic = case["ignore_case"]
    if kind == "str":
        is_kw = case["keyword"] and re.fullmatch(r"[a-zA-Z]+", value) is not None
        seg = text[pos:pos + len(value)]
        ok = seg.lower() == value.lower() if ic else seg == value
        if not ok:
            return 0
        if is_kw:
            # whole word: not preceded / followed by a word character
            before = text[pos - 1] if pos > 0 else ""
            after = text[pos + len(value)] if pos + len(value) < len(text) else ""
            if re.match(r"\w", before or " ") or re.match(r"\w", after or " "):
                return 0
        return len(value)
    flags = re.MULTILINE
    if kind == "re" and ic:
        flags |= re.IGNORECASE
    m = re.compile(value, flags).match(text, pos)
    return len(m.group()) if m and m.group() else 0


def ref_choice(case, group, text, pos):
    """documented rules -> ("token", j, len) | ("ambiguous", {j: len}) | ("none",) | ("skip",)"""
    terms = case["terms"]
    M = {}
    for j in group:
        n = match_len(terms[j], case, text, pos)
        if n:
            M[j] = n
    if not M:
        return ("none",), M
    P = max(terms[j]["prior"] for j in M)
    M1 = {j: n for j, n in M.items() if terms[j]["prior"] == P}

    def is_string(j):
        return POOL[terms[j]["i"]][1] == "str"
    nofin = [j for j in M1 if is_string(j) and terms[j].get("nofinish")]
    strings = [j for j in M1 if is_string(j)]
    if nofin and len(strings) > 1:
        return ("skip",), M
    specific = [j for j in strings if not terms[j].get("nofinish")]
    M2 = {j: M1[j] for j in specific} if specific else M1
    L = max(M2.values())
    M3 = {j: n for j, n in M2.items() if n == L}
    rule = 1 if len(M) == 1 else (2 if len(M1) < len(M) and len(M1) == 1 else None)
    if len(M3) > 1:
        pref = {j: n for j, n in M3.items() if terms[j]["prefer"]}
        if pref:
            M3 = pref
    if len(M3) == 1:
        j = next(iter(M3))
        return ("token", j, M3[j]), M
    return ("ambiguous", M3), M


def run_case(case, ctx):
    text_g, recs = build(case)
    terms = case["terms"]
    ic = case["ignore_case"]
    info0 = dict(grammar=text_g, ignore_case=ic)
    try:
        def mk():
            return pgl.Grammar.from_string(text_g, recognizers=recs or None, ignore_case=ic)

        def passthrough(context, get_tokens):
            # documented: "might decide to return this list if no change is necessary"
            return get_tokens()
        configs = []
        for label, kw in (("", {}), ("pass-through custom_token_recognition", {"custom_token_recognition": passthrough})):
            configs.append((label,
                            pgl.Parser(mk(), consume_input=False, build_tree=True, **kw),
                            pgl.GLRParser(mk(), consume_input=False, **kw),
                            pgl.GLRParser(mk(), consume_input=False, lexical_disambiguation=True, **kw)))
    except parglare.GrammarError as e:
        # two string terminals that differ only in case are the same terminal
        # under ignore_case: the grammar is (rightly) rejected
        strs = [POOL[t["i"]][2].lower() for t in terms if POOL[t["i"]][1] == "str"]
        used = {j for g in case["groups"] for j in g}
        ustrs = [POOL[terms[j]["i"]][2].lower() for j in used if POOL[terms[j]["i"]][1] == "str"]
        if ic and len(set(ustrs)) < len(ustrs) and "match the same string" in str(e):
            ctx.label("out-of-domain:strings-equal-up-to-case")
            return
        ctx.fail("construction-raises", error=repr(e)[:300], **info0)
    except (SRConflicts, RRConflicts) as e:
        ctx.fail("selector-grammar-has-conflicts", error=repr(e)[:200], **info0)
    except Exception as e:
        ctx.fail("construction-raises", error=repr(e)[:300], **info0)
    name_of = {j: POOL[terms[j]["i"]][0] for j in range(len(terms))}
    if ic:
        used = {j for g in case["groups"] for j in g}
        ustrs = [POOL[terms[j]["i"]][2].lower() for j in used if POOL[terms[j]["i"]][1] == "str"]
        if len(set(ustrs)) < len(ustrs):
            ctx.label("strings-equal-up-to-case-accepted")
    ctx.label("keyword" if case["keyword"] else "no-keyword")
    ctx.label("ignore_case" if ic else "case-sensitive")
    for gi, group in enumerate(case["groups"]):
        for body in TEXTS:
            text = SELECTORS[gi] + body
            pos = 1
            # layout is skipped before the token
            while pos < len(text) and text[pos] in " \t\r\n":
                pos += 1
            info = dict(input=text, group=[name_of[j] for j in group], **info0)
            want, M = ref_choice(case, group, text, pos)
            if want[0] == "skip":
                ctx.label("outside-model:nofinish-string-with-second-string")
                continue
            for config, lr, glr, glr_ld in configs:
                if config:
                    info = dict(info, parser_option=config)
                # ------------------------- LR ---------------------------------
                out = G.run_parse(lr, text)
                if want[0] == "none":
                    if out.kind != "syntax":
                        ctx.fail("lr-should-raise-SyntaxError-when-nothing-matches", outcome=out.kind,
                                 error=repr(out.exc)[:200], **info)
                    if out.exc.location.start_position != pos:
                        ctx.fail("lr-syntax-error-position", reported=out.exc.location.start_position,
                                 expected=pos, **info)
                elif want[0] == "ambiguous":
                    if not (out.kind == "other" and isinstance(out.exc, parglare.DisambiguationError)):
                        ctx.fail("lr-should-raise-DisambiguationError", outcome=out.kind,
                                 remaining=sorted(name_of[j] for j in want[1]),
                                 got=repr(out.value if out.kind == "ok" else out.exc)[:200], **info)
                    got = sorted((t.symbol.name, len(t.value)) for t in out.exc.tokens)
                    exp = sorted((name_of[j], n) for j, n in want[1].items())
                    if got != exp:
                        ctx.fail("DisambiguationError-tokens-differ", got=got, expected=exp, **info)
                else:
                    _, j, n = want
                    if out.kind != "ok":
                        ctx.fail("lr-should-pick-a-token", expected=[name_of[j], n], outcome=out.kind,
                                 error=repr(out.exc)[:300], **info)
                    leaves = T.canon_leaves(T.canon(out.value))
                    if len(leaves) < 2:
                        ctx.fail("lr-result-without-token", **info)
                    got = (leaves[1][0], leaves[1][1], leaves[1][2])
                    if got != (name_of[j], pos, pos + n):
                        ctx.fail("lr-picks-a-different-token", got=list(got), expected=[name_of[j], pos, pos + n],
                                 matching=sorted((name_of[x], y) for x, y in M.items()), **info)
                # ------------------------- GLR ---------------------------------
                gout = G.run_parse(glr, text)
                if M:
                    P = max(terms[j]["prior"] for j in M)
                    exp = sorted((name_of[j], pos, pos + n) for j, n in M.items() if terms[j]["prior"] == P)
                    if gout.kind != "ok":
                        ctx.fail("glr-should-pursue-matching-tokens", expected=exp, outcome=gout.kind,
                                 error=repr(gout.exc)[:200], **info)
                    n_t, loop = G.forest_len(gout.value)
                    got = sorted({T.canon_leaves(T.canon(gout.value[i]))[1] for i in range(n_t)})
                    if got != exp:
                        ctx.fail("glr-pursues-a-different-token-set", got=got, expected=exp, **info)
                else:
                    if gout.kind != "syntax":
                        ctx.fail("glr-should-raise-SyntaxError-when-nothing-matches", outcome=gout.kind, **info)
                # ------------- GLR with lexical disambiguation on ---------------
                lout = G.run_parse(glr_ld, text)
                if want[0] == "none":
                    if lout.kind != "syntax":
                        ctx.fail("glr-lexdis-should-raise-SyntaxError-when-nothing-matches", outcome=lout.kind, **info)
                else:
                    chosen = {want[1]: want[2]} if want[0] == "token" else want[1]
                    exp = sorted((name_of[j], pos, pos + n) for j, n in chosen.items())
                    if lout.kind != "ok":
                        ctx.fail("glr-lexdis-should-pursue-the-disambiguated-tokens", expected=exp, outcome=lout.kind,
                                 error=repr(lout.exc)[:200], **info)
                    n_t, loop = G.forest_len(lout.value)
                    got = sorted({T.canon_leaves(T.canon(lout.value[i]))[1] for i in range(n_t)})
                    if got != exp:
                        ctx.fail("glr-lexdis-pursues-a-different-token-set", got=got, expected=exp, **info)
            ctx.label("positions")
            ctx.label("verdict:" + want[0])
            if len(M) >= 2:
                P = max(terms[j]["prior"] for j in M)
                top = [j for j in M if terms[j]["prior"] == P]
                strong = len(top) >= 2
                if strong:
                    ctx.label("decided-after-priority-rule")
                ctx.nontrivial([case["terms"], group, case["keyword"], ic, text],
                               sample={"grammar": text_g, "input": text, "ignore_case": ic,
                                       "matching": sorted((name_of[x], y) for x, y in M.items()),
                                       "documented_outcome": want[0] if want[0] != "token" else name_of[want[1]]})


@st.composite
def cases(draw):
    n = draw(st.integers(2, 6))
    idx = draw(st.lists(st.integers(0, len(POOL) - 1), min_size=n, max_size=n, unique=True))
    terms = []
    for i in idx:
        kind = POOL[i][1]
        terms.append({"i": i, "prior": draw(st.sampled_from([10, 10, 10, 5, 15])),
                      "prefer": draw(st.integers(0, 3)) == 0,
                      # on a string terminal nofinish changes the outcome (see
                      # ASSUMPTIONS); on other terminals it only switches the
                      # scanning shortcut off and must not change anything
                      "nofinish": draw(st.integers(0, 5 if kind == "str" else 3)) == 0})
    ng = draw(st.integers(1, 3))
    groups = []
    for _ in range(ng):
        g = draw(st.lists(st.integers(0, n - 1), min_size=1, max_size=n, unique=True))
        groups.append(sorted(g))
    ignore_case = draw(st.integers(0, 3)) == 0
    # two string terminals equal up to case cannot be told apart by ignore_case grammars
    return {"terms": terms, "groups": groups, "keyword": draw(st.integers(0, 2)) == 0,
            "ignore_case": ignore_case}


def strat(tier):
    return cases()


def enum_pairs(tier):
    """every pair of pool terminals at equal priority, no marks"""
    def it():
        for a in range(len(POOL)):
            for b in range(a + 1, len(POOL)):
                yield {"terms": [{"i": a, "prior": 10, "prefer": False, "nofinish": False},
                                 {"i": b, "prior": 10, "prefer": False, "nofinish": False}],
                       "groups": [[0, 1], [0], [1]], "keyword": (a + b) % 3 == 0, "ignore_case": False}
    return it()


SUBCHECKS = [
    SubCheck("all-pairs", run_case, enumerate=enum_pairs),
    SubCheck("random-terminal-sets", run_case, strategy=strat, examples={"quick": 4800, "thorough": 48000}),
]


def subcheck(name):
    return {s.name: s for s in SUBCHECKS}[name]
