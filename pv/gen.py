"""Hypothesis strategies and exhaustive enumerators shared by the property
modules (DESIGN section 3).  Every strategy yields JSON-serialisable values."""
import itertools

from hypothesis import strategies as st

from .cfg import CFG, normalise

NT_NAMES = ["S", "A", "B", "C", "D", "E"]
L0_TERMS = [("a", "str", "a"), ("b", "str", "b"), ("c", "str", "c"),
            ("d", "str", "d"), ("e", "str", "e")]
# overlapping lexicon (equal priorities)
L1_TERMS = [("a", "str", "a"), ("b", "str", "b"), ("aa", "str", "aa"),
            ("ab", "str", "ab"), ("ap", "re", "a+"), ("x", "re", "[ab]"),
            ("abo", "re", "ab?")]
# delimiter separated multi character terminals
L2_TERMS = [("num", "re", r"\d+"), ("id", "re", r"[a-z]+"), ("p", "str", "+"),
            ("q", "str", ";"), ("kw", "str", "=>")]


@st.composite
def cfgs(draw, max_nts=3, max_alts=3, max_rhs=3, min_terms=1, max_terms=3,
         allow_empty=True, terms_pool=None, templates=True):
    """Small context-free grammars, productive and reachable by construction."""
    pool = list(terms_pool or L0_TERMS)
    n_nt = draw(st.integers(1, max_nts))
    nts = NT_NAMES[:n_nt]
    n_t = draw(st.integers(min_terms, min(max_terms, len(pool))))
    if terms_pool is None:
        terms = pool[:n_t]
    else:
        idxs = draw(st.lists(st.integers(0, len(pool) - 1), min_size=n_t, max_size=n_t,
                             unique=True))
        terms = [pool[i] for i in sorted(idxs)]
    tnames = [t[0] for t in terms]
    syms = nts + tnames
    sym = st.sampled_from(syms)
    prods = []
    for n in nts:
        k = draw(st.integers(1, max_alts))
        for _ in range(k):
            shape = draw(st.integers(0, 9)) if templates else 0
            if shape == 9 and allow_empty:
                rhs = []
            elif shape == 8:
                # left recursion A: A x
                rhs = [n] + draw(st.lists(sym, min_size=1, max_size=max_rhs - 1))
            elif shape == 7:
                # right recursion A: x A
                rhs = draw(st.lists(sym, min_size=1, max_size=max_rhs - 1)) + [n]
            elif shape == 6 and n_nt > 1:
                # hidden recursion through another non-terminal first
                other = draw(st.sampled_from(nts))
                rhs = [other, n] + draw(st.lists(sym, min_size=0, max_size=max(0, max_rhs - 2)))
            else:
                rhs = draw(st.lists(sym, min_size=0 if allow_empty else 1, max_size=max_rhs))
            prods.append((n, tuple(rhs)))
    g = normalise(nts, terms, prods)
    return g.to_json()


def acyclic(gjson):
    return not CFG.from_json(gjson).is_cyclic()


def tiny_grammars(level=1):
    """Deterministic exhaustive enumeration of tiny grammars (normalised,
    de-duplicated).  level 1: one non-terminal, terminals {a,b}, <=3
    alternatives, |rhs|<=3 (about 10^4 raw).  level 2: adds two non-terminals,
    <=2 alternatives each, |rhs|<=2."""
    seen = set()
    terms = L0_TERMS[:2]

    def emit(nts, prods):
        g = normalise(nts, terms, prods)
        k = g.key()
        if k in seen:
            return None
        seen.add(k)
        return g.to_json()

    syms = ["S", "a", "b"]
    rhss = [r for n in range(0, 4) for r in itertools.product(syms, repeat=n)]
    for k in (1, 2, 3):
        for alts in itertools.combinations(rhss, k):
            g = emit(["S"], [("S", r) for r in alts])
            if g:
                yield g
    if level >= 2:
        syms = ["S", "A", "a", "b"]
        rhss = [r for n in range(0, 3) for r in itertools.product(syms, repeat=n)]
        choices = [c for k in (1, 2) for c in itertools.combinations(rhss, k)]
        for sa in choices:
            if not any("A" in r for r in sa):
                continue
            for aa in choices:
                g = emit(["S", "A"], [("S", r) for r in sa] + [("A", r) for r in aa])
                if g:
                    yield g


def all_token_strings(tnames, max_len):
    for n in range(0, max_len + 1):
        for w in itertools.product(tnames, repeat=n):
            yield list(w)


# Classic hard grammars pinned as explicit examples -------------------------
def _g(nts, terms, prods):
    return CFG(nts, terms, prods).to_json()


T_AB = L0_TERMS[:2]
T_A = L0_TERMS[:1]
CLASSICS = {
    # S: S S | a | EMPTY  (cyclic, highly ambiguous)
    "sss_eps": _g(["S"], T_A, [("S", ["S", "S"]), ("S", ["a"]), ("S", [])]),
    "sss": _g(["S"], T_A, [("S", ["S", "S"]), ("S", ["a"])]),
    "ssS3": _g(["S"], T_A, [("S", ["S", "S", "S"]), ("S", ["S", "S"]), ("S", ["a"])]),
    # Scott & Johnstone Gamma1: S: a B B c; B: b | EMPTY (right nullable)
    "gamma1": _g(["S", "B"], L0_TERMS[:3], [("S", ["a", "B", "B", "c"]), ("B", ["b"]), ("B", [])]),
    # hidden left recursion: S: B S a | b ; B: EMPTY
    "gamma2": _g(["S", "B"], T_AB, [("S", ["B", "S", "a"]), ("S", ["b"]), ("B", [])]),
    # hidden right recursion
    "hidden_right": _g(["S", "B"], T_AB, [("S", ["a", "S", "B"]), ("S", ["b"]), ("B", [])]),
    # LR(1) not LALR(1)
    "lr1_not_lalr": _g(["S", "A", "B"], L0_TERMS[:5],
                       [("S", ["a", "A", "d"]), ("S", ["b", "B", "d"]), ("S", ["a", "B", "e"]),
                        ("S", ["b", "A", "e"]), ("A", ["c"]), ("B", ["c"])]),
    # dangling else like
    "dangling": _g(["S"], L0_TERMS[:3], [("S", ["a", "S"]), ("S", ["a", "S", "b", "S"]), ("S", ["c"])]),
    # missing derivation witness (D1)
    "d1": _g(["S", "A"], T_A, [("S", ["A", "A"]), ("A", []), ("A", ["S", "a"])]),
    # duplicate packing witness (D2)
    "d2": _g(["S", "A"], T_A, [("S", ["A"]), ("A", ["a"]), ("A", ["S", "A"])]),
    # LALR divergence witnesses (D4)
    "d4a": _g(["S", "A"], T_A, [("S", ["a"]), ("S", ["a", "A"]), ("A", ["S", "S", "a"]), ("A", ["a"])]),
    "d4b": _g(["S", "A"], T_A, [("S", ["A"]), ("S", ["A", "A"]), ("A", ["a"]), ("A", ["A", "S"])]),
    # FIRST leak witness (D5)
    "d5": _g(["S", "A"], T_AB, [("S", ["A", "b"]), ("A", ["a"]), ("A", [])]),
    # cyclic
    "cyc1": _g(["S", "A"], T_A, [("S", ["A"]), ("A", ["S"]), ("A", ["a"])]),
    "cyc2": _g(["S", "A"], T_A, [("S", ["S", "A"]), ("S", ["a"]), ("A", [])]),
    # palindromes (not LR(k))
    "pal": _g(["S"], T_AB, [("S", ["a", "S", "a"]), ("S", ["b", "S", "b"]), ("S", [])]),
    # expression
    "expr": _g(["S"], L0_TERMS[:3], [("S", ["S", "a", "S"]), ("S", ["S", "b", "S"]), ("S", ["c"])]),
    # nullable chain
    "nulchain": _g(["S", "A", "B"], T_AB, [("S", ["A", "B", "a"]), ("A", ["B"]), ("A", ["a"]),
                                           ("B", []), ("B", ["b"])]),
}
