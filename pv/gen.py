"""Hypothesis strategies and exhaustive enumerators shared by the property
modules (DESIGN section 3).  Every strategy yields JSON-serialisable values."""
import itertools

from hypothesis import strategies as st

from .cfg import CFG, normalise

NT_NAMES = ["S", "A", "B", "C", "D", "E"]
L0_TERMS = [("a", "str", "a"), ("b", "str", "b"), ("c", "str", "c"),
            ("d", "str", "d"), ("e", "str", "e"), ("f", "str", "f"), ("g", "str", "g")]
# overlapping lexicon (equal priorities)
L1_TERMS = [("a", "str", "a"), ("b", "str", "b"), ("aa", "str", "aa"),
            ("ab", "str", "ab"), ("ap", "re", "a+"), ("x", "re", "[ab]"),
            ("abo", "re", "ab?")]
# crossing overlap (tokens of different length whose boundaries interleave: a|ab|bc|c on "abc")
L1X_TERMS = [("a", "str", "a"), ("ab", "str", "ab"), ("bc", "str", "bc"), ("c", "str", "c"), ("b", "str", "b"),
             ("abc", "str", "abc"), ("ba", "str", "ba"), ("cb", "re", "c?b")]
# delimiter separated multi character terminals
L2_TERMS = [("num", "re", r"\d+"), ("id", "re", r"[a-z]+"), ("p", "str", "+"),
            ("q", "str", ";"), ("kw", "str", "=>")]


@st.composite
def cfgs(draw, max_nts=3, max_alts=3, max_rhs=3, min_terms=1, max_terms=3,
         allow_empty=True, terms_pool=None, templates=True):
    """Small context-free grammars, productive and reachable by construction."""
    pool = list(terms_pool or L0_TERMS)
    n_nt = draw(st.integers(1, max_nts))
    nts = NT_NAMES[:n_nt]
    n_t = draw(st.integers(min_terms, min(max_terms, len(pool))))
    if terms_pool is None:
        terms = pool[:n_t]
    else:
        idxs = draw(st.lists(st.integers(0, len(pool) - 1), min_size=n_t, max_size=n_t,
                             unique=True))
        terms = [pool[i] for i in sorted(idxs)]
    tnames = [t[0] for t in terms]
    syms = nts + tnames
    sym = st.sampled_from(syms)
    prods = []
    for n in nts:
        k = draw(st.integers(1, max_alts))
        for _ in range(k):
            shape = draw(st.integers(0, 9)) if templates else 0
            if shape == 9 and allow_empty:
                rhs = []
            elif shape == 8:
                # left recursion A: A x
                rhs = [n] + draw(st.lists(sym, min_size=1, max_size=max_rhs - 1))
            elif shape == 7:
                # right recursion A: x A
                rhs = draw(st.lists(sym, min_size=1, max_size=max_rhs - 1)) + [n]
            elif shape == 6 and n_nt > 1:
                # hidden recursion through another non-terminal first
                other = draw(st.sampled_from(nts))
                rhs = [other, n] + draw(st.lists(sym, min_size=0, max_size=max(0, max_rhs - 2)))
                if allow_empty and other != n and draw(st.booleans()):
                    prods.append((other, ()))  # hidden left recursion through a nullable symbol
            else:
                rhs = draw(st.lists(sym, min_size=0 if allow_empty else 1, max_size=max_rhs))
            prods.append((n, tuple(rhs)))
    g = normalise(nts, terms, prods)
    return g.to_json()


@st.composite
def refused_merge_cfgs(draw):
    """Grammars around the classic LR(1)-but-not-LALR(1) pattern
        X: p A q | r B q | p B s | r A s;   A: w;  B: w
    (merging the two states {A: w., B: w.} would add a reduce/reduce conflict,
    so an LALR construction that refuses such merges has to split), with
    generated variations: common tail non-terminals with nullable
    alternatives, the pattern used in two contexts, extra alternatives."""
    t = [x[0] for x in L0_TERMS]
    p_, r_, q_, s_ = t[0], t[1], t[3], t[4]
    prods = []
    wrap = draw(st.integers(0, 2))
    nts = ["S", "A", "B", "C", "D"]
    X = "S"
    if wrap:
        # S: D | f D g   (the pattern lives in D and is reached in two contexts)
        X = "D"
        prods.append(("S", ("D",)))
        prods.append(("S", (t[5], "D", t[6]) if wrap == 1 else (t[5], "D")))
    w = draw(st.sampled_from([(t[2],), (t[2], "C"), ("C", t[2]), (t[2], t[2]), ("C",)]))
    if w == ("C",):
        cal = [(t[2],), (t[2], t[5])]
    else:
        cal = draw(st.lists(st.sampled_from([(), (t[5],), (t[6],), (t[5], "C"), ("C", t[5])]),
                            min_size=1, max_size=2, unique=True))
    prods += [(X, (p_, "A", q_)), (X, (r_, "B", q_)), (X, (p_, "B", s_)), (X, (r_, "A", s_))]
    drop = draw(st.integers(0, 5))
    if drop >= 4:
        # variation: one side without trailing terminal
        prods[-1] = (X, (r_, "A"))
        prods[-2] = (X, (p_, "B"))
        prods[-4 + 0] = (X, (p_, "A", q_))
    extra = draw(st.lists(st.sampled_from([(p_, "C", t[5]), (r_, "C"), (t[2],), ("A",), (p_, X, q_)]),
                          max_size=2, unique=True))
    prods += [(X, e) for e in extra]
    a_tail = draw(st.sampled_from([(), ("C",)]))
    prods.append(("A", w + a_tail))
    prods.append(("B", w))
    third = draw(st.integers(0, 3))
    if third:
        # a third rule sharing the prefix w whose item is not at its end in the
        # split states (its closure inherits the kernel lookahead)
        nts = nts + ["E"]
        prods.append(("E", w + ("C",)))
        ctxs = [(p_, "E", t[5]), (r_, "E"), (p_, "E"), (r_, "E", t[6])]
        k = draw(st.lists(st.sampled_from(ctxs), min_size=1, max_size=2, unique=True))
        prods += [(X, c) for c in k]
    prods += [("C", c) for c in cal]
    g = normalise(nts, L0_TERMS, prods)
    return g.to_json()


@st.composite
def nullable_chain_cfgs(draw):
    """Grammars with unit-production chains ending in EMPTY (A: B; B: C; C:
    EMPTY | t) used in several contexts with different following terminals:
    lookaheads have to travel through several closure levels."""
    t = [x[0] for x in L0_TERMS[:4]]
    nts = ["S", "A", "B", "C"]
    tok = st.sampled_from(t)
    X = st.sampled_from(["A", "B", "C"])
    prods = []
    n_s = draw(st.integers(2, 4))
    for _ in range(n_s):
        shape = draw(st.integers(0, 5))
        if shape == 0:
            prods.append(("S", (draw(tok), draw(X))))
        elif shape == 1:
            prods.append(("S", (draw(tok), draw(X), draw(tok))))
        elif shape == 2:
            prods.append(("S", (draw(X), draw(tok))))
        elif shape == 3:
            prods.append(("S", (draw(tok), draw(X), draw(X))))
        elif shape == 4:
            prods.append(("S", (draw(X), draw(X), draw(tok))))
        else:
            prods.append(("S", (draw(tok), "S", draw(tok))))
    prods.append(("A", ("B",)))
    extra_a = draw(st.sampled_from([None, ("A", "t"), ("t", "A"), ("A", "t", "B"), ("t",)]))
    if extra_a:
        tt = draw(tok)
        ea = tuple(tt if x == "t" else x for x in extra_a)
        if draw(st.booleans()):
            prods.insert(len(prods) - 1, ("A", ea))   # before the chain alternative
        else:
            prods.append(("A", ea))
    prods.append(("B", ("C",)))
    if draw(st.booleans()):
        prods.append(("B", (draw(tok),)))
    if draw(st.integers(0, 2)) == 0:
        # one more unit level: C: D; D: EMPTY | t
        nts = nts + ["D"]
        prods.append(("C", ("D",)))
        if draw(st.booleans()):
            prods.append(("C", (draw(tok), "D")))
        prods.append(("D", ()))
        if draw(st.booleans()):
            prods.append(("D", (draw(tok),)))
    else:
        prods.append(("C", ()))
        if draw(st.booleans()):
            prods.append(("C", (draw(tok),)))
    g = normalise(nts, L0_TERMS[:4], prods)
    return g.to_json()


def acyclic(gjson):
    return not CFG.from_json(gjson).is_cyclic()


def tiny_grammars(level=1):
    """Deterministic exhaustive enumeration of tiny grammars (normalised,
    de-duplicated).  level 1: one non-terminal, terminals {a,b}, <=3
    alternatives, |rhs|<=3 (about 10^4 raw).  level 2: adds two non-terminals,
    <=2 alternatives each, |rhs|<=2."""
    seen = set()
    terms = L0_TERMS[:2]

    def emit(nts, prods):
        g = normalise(nts, terms, prods)
        k = g.key()
        if k in seen:
            return None
        seen.add(k)
        return g.to_json()

    syms = ["S", "a", "b"]
    rhss = [r for n in range(0, 4) for r in itertools.product(syms, repeat=n)]
    for k in (1, 2, 3):
        for alts in itertools.combinations(rhss, k):
            g = emit(["S"], [("S", r) for r in alts])
            if g:
                yield g
    if level >= 2:
        syms = ["S", "A", "a", "b"]
        rhss = [r for n in range(0, 3) for r in itertools.product(syms, repeat=n)]
        choices = [c for k in (1, 2) for c in itertools.combinations(rhss, k)]
        for sa in choices:
            if not any("A" in r for r in sa):
                continue
            for aa in choices:
                g = emit(["S", "A"], [("S", r) for r in sa] + [("A", r) for r in aa])
                if g:
                    yield g


def epsilon_family():
    """Deterministic exhaustive family of two-non-terminal grammars over one
    terminal that mix recursion with EMPTY alternatives (the shapes on which
    the GLR driver's revisit / empty-reduction logic matters).  About 3000
    grammars after normalisation."""
    terms = L0_TERMS[:1]
    s_alts = [("A",), ("a", "a"), ("a",), ("S", "a"), ("A", "S"), ("S", "A"), ("A", "a"), ("a", "A")]
    a_alts = [(), ("A", "a", "S"), ("A", "a"), ("a",), ("S",), ("S", "a"), ("a", "A"), ("A", "A")]
    seen = set()
    for ks in (1, 2):
        for sa in itertools.combinations(s_alts, ks):
            for ka in (2, 3):
                for aa in itertools.combinations(a_alts, ka):
                    g = normalise(["S", "A"], terms, [("S", r) for r in sa] + [("A", r) for r in aa])
                    if "A" not in g.nts or g.key() in seen:
                        continue
                    seen.add(g.key())
                    yield g.to_json()


def all_token_strings(tnames, max_len):
    for n in range(0, max_len + 1):
        for w in itertools.product(tnames, repeat=n):
            yield list(w)


# Classic hard grammars pinned as explicit examples -------------------------
def _g(nts, terms, prods):
    return CFG(nts, terms, prods).to_json()


T_AB = L0_TERMS[:2]
T_A = L0_TERMS[:1]
CLASSICS = {
    # S: S S | a | EMPTY  (cyclic, highly ambiguous)
    "sss_eps": _g(["S"], T_A, [("S", ["S", "S"]), ("S", ["a"]), ("S", [])]),
    "sss": _g(["S"], T_A, [("S", ["S", "S"]), ("S", ["a"])]),
    "ssS3": _g(["S"], T_A, [("S", ["S", "S", "S"]), ("S", ["S", "S"]), ("S", ["a"])]),
    # Scott & Johnstone Gamma1: S: a B B c; B: b | EMPTY (right nullable)
    "gamma1": _g(["S", "B"], L0_TERMS[:3], [("S", ["a", "B", "B", "c"]), ("B", ["b"]), ("B", [])]),
    # hidden left recursion: S: B S a | b ; B: EMPTY
    "gamma2": _g(["S", "B"], T_AB, [("S", ["B", "S", "a"]), ("S", ["b"]), ("B", [])]),
    # hidden right recursion
    "hidden_right": _g(["S", "B"], T_AB, [("S", ["a", "S", "B"]), ("S", ["b"]), ("B", [])]),
    # LR(1) not LALR(1)
    "lr1_not_lalr": _g(["S", "A", "B"], L0_TERMS[:5],
                       [("S", ["a", "A", "d"]), ("S", ["b", "B", "d"]), ("S", ["a", "B", "e"]),
                        ("S", ["b", "A", "e"]), ("A", ["c"]), ("B", ["c"])]),
    # dangling else like
    "dangling": _g(["S"], L0_TERMS[:3], [("S", ["a", "S"]), ("S", ["a", "S", "b", "S"]), ("S", ["c"])]),
    # missing derivation witness (D1)
    "d1": _g(["S", "A"], T_A, [("S", ["A", "A"]), ("A", []), ("A", ["S", "a"])]),
    # duplicate packing witness (D2)
    "d2": _g(["S", "A"], T_A, [("S", ["A"]), ("A", ["a"]), ("A", ["S", "A"])]),
    # LALR divergence witnesses (D4)
    "d4a": _g(["S", "A"], T_A, [("S", ["a"]), ("S", ["a", "A"]), ("A", ["S", "S", "a"]), ("A", ["a"])]),
    "d4b": _g(["S", "A"], T_A, [("S", ["A"]), ("S", ["A", "A"]), ("A", ["a"]), ("A", ["A", "S"])]),
    # FIRST leak witness (D5)
    "d5": _g(["S", "A"], T_AB, [("S", ["A", "b"]), ("A", ["a"]), ("A", [])]),
    # cyclic
    "cyc1": _g(["S", "A"], T_A, [("S", ["A"]), ("A", ["S"]), ("A", ["a"])]),
    "cyc2": _g(["S", "A"], T_A, [("S", ["S", "A"]), ("S", ["a"]), ("A", [])]),
    # palindromes (not LR(k))
    "pal": _g(["S"], T_AB, [("S", ["a", "S", "a"]), ("S", ["b", "S", "b"]), ("S", [])]),
    # expression
    "expr": _g(["S"], L0_TERMS[:3], [("S", ["S", "a", "S"]), ("S", ["S", "b", "S"]), ("S", ["c"])]),
    # nullable chain
    "nulchain": _g(["S", "A", "B"], T_AB, [("S", ["A", "B", "a"]), ("A", ["B"]), ("A", ["a"]),
                                           ("B", []), ("B", ["b"])]),
}
