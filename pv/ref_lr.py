"""Reference LR machinery written from the textbook definitions (Aho et al.):
FIRST/FOLLOW, canonical LR(1) collection, LALR(1) lookaheads by merging
canonical states with equal cores, SLR(1) = FOLLOW.  No code shared with
parglare; used as the oracle of C05 (and for the LALR(1)-ness labels elsewhere).

Productions are referred to by index into cfg.prods; the augmented production
has index -1 (S' -> start) and the end marker is the string "STOP".
"""
END = "STOP"


class TooBig(Exception):
    pass


class RefLR:
    def __init__(self, cfg, start=None, max_states=600):
        self.g = cfg
        self.start = start or cfg.start
        self.max_states = max_states
        self.work = 0  # abstract work counter (closure item visits)
        self.prods = list(cfg.prods)
        self.nul = cfg.nullable()
        self.fst = cfg.first()
        self._build_lr1()

    # ----------------------------------------------------------------- utils
    def rhs(self, p):
        return (self.start,) if p == -1 else self.prods[p][1]

    def lhs(self, p):
        return "S'" if p == -1 else self.prods[p][0]

    def first_seq(self, seq, la):
        out = set()
        for s in seq:
            if self.g.is_nt(s):
                out |= self.fst[s]
                if s not in self.nul:
                    return out
            else:
                out.add(s)
                return out
        out.add(la)
        return out

    def follow(self):
        fol = {n: set() for n in self.g.nts}
        fol[self.start].add(END)
        changed = True
        while changed:
            changed = False
            for l, r in self.prods:
                for i, s in enumerate(r):
                    if not self.g.is_nt(s):
                        continue
                    f, nullable_rest = self.g.first_of_seq(r[i + 1:])
                    add = set(f)
                    if nullable_rest:
                        add |= fol[l]
                    if not add <= fol[s]:
                        fol[s] |= add
                        changed = True
        return fol

    # ----------------------------------------------------------- canonical
    def closure(self, items):
        items = set(items)
        todo = list(items)
        while todo:
            p, d, la = todo.pop()
            self.work += 1
            r = self.rhs(p)
            if d < len(r) and self.g.is_nt(r[d]):
                las = self.first_seq(r[d + 1:], la)
                for q, _ in self.g.by_lhs[r[d]]:
                    for b in las:
                        it = (q, 0, b)
                        if it not in items:
                            items.add(it)
                            todo.append(it)
        return frozenset(items)

    def _build_lr1(self):
        start = self.closure({(-1, 0, END)})
        self.states = [start]
        index = {start: 0}
        self.trans = [{}]
        todo = [0]
        while todo:
            i = todo.pop(0)
            st = self.states[i]
            by_sym = {}
            for p, d, la in st:
                r = self.rhs(p)
                if d < len(r):
                    by_sym.setdefault(r[d], set()).add((p, d + 1, la))
            for sym in sorted(by_sym):
                nxt = self.closure(by_sym[sym])
                j = index.get(nxt)
                if j is None:
                    j = len(self.states)
                    if j >= self.max_states:
                        raise TooBig()
                    index[nxt] = j
                    self.states.append(nxt)
                    self.trans.append({})
                    todo.append(j)
                self.trans[i][sym] = j
        self.cores = [frozenset((p, d) for p, d, _ in st if d > 0 or p == -1)
                      for st in self.states]

    def lr1_actions(self, i):
        """{terminal: set of actions}; action = ("s",) | ("r", p) | ("acc",)"""
        acts = {}
        for p, d, la in self.states[i]:
            r = self.rhs(p)
            if d < len(r):
                if not self.g.is_nt(r[d]):
                    acts.setdefault(r[d], set()).add(("s",))
            elif p == -1:
                acts.setdefault(END, set()).add(("acc",))
            else:
                acts.setdefault(la, set()).add(("r", p))
        return acts

    # ---------------------------------------------------------------- LALR
    def lalr(self):
        """{core: {(p, d): set(lookaheads)}} over the merged states (closure
        items included), plus {core: {terminal: set(actions)}}"""
        if hasattr(self, "_lalr"):
            return self._lalr
        las = {}
        for st, core in zip(self.states, self.cores):
            d = las.setdefault(core, {})
            for p, dot, la in st:
                d.setdefault((p, dot), set()).add(la)
        acts = {}
        for core, items in las.items():
            a = acts.setdefault(core, {})
            for (p, d), ls in items.items():
                r = self.rhs(p)
                if d < len(r):
                    if not self.g.is_nt(r[d]):
                        a.setdefault(r[d], set()).add(("s",))
                elif p == -1:
                    a.setdefault(END, set()).add(("acc",))
                else:
                    for la in ls:
                        a.setdefault(la, set()).add(("r", p))
        self._lalr = (las, acts)
        return self._lalr

    def slr_actions(self):
        """{core: {terminal: set(actions)}} with reductions on FOLLOW"""
        fol = self.follow()
        las, _ = self.lalr()
        acts = {}
        for core, items in las.items():
            a = acts.setdefault(core, {})
            for (p, d) in items:
                r = self.rhs(p)
                if d < len(r):
                    if not self.g.is_nt(r[d]):
                        a.setdefault(r[d], set()).add(("s",))
                elif p == -1:
                    a.setdefault(END, set()).add(("acc",))
                else:
                    for la in fol[self.lhs(p)]:
                        a.setdefault(la, set()).add(("r", p))
        return acts

    @staticmethod
    def conflicts(actions_by_core):
        """set of (core, terminal) whose cell holds more than one action"""
        out = set()
        for core, a in actions_by_core.items():
            for t, s in a.items():
                if len(s) > 1:
                    out.add((core, t))
        return out

    def lr1_conflict_free(self):
        return all(len(s) == 1 for i in range(len(self.states))
                   for s in self.lr1_actions(i).values())

    def lalr_conflict_free(self):
        return not self.conflicts(self.lalr()[1])

    def slr_conflict_free(self):
        return not self.conflicts(self.slr_actions())
