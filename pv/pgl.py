"""Thin adapter around parglare's public API used by the property modules."""
import pv  # noqa: F401  (sys.path set-up)

from parglare import GLRParser, Grammar, Parser  # noqa: E402
from parglare.tables import LALR, SLR, SHIFT, REDUCE, ACCEPT, create_table  # noqa: E402
from parglare.closure import LR_0, LR_1  # noqa: E402

from .cfg import CFG

TABLES = {"LALR": LALR, "SLR": SLR}
ITEMSETS = {"LALR": LR_1, "SLR": LR_0}


def grammar_from_cfg(cfg, **kw):
    if not isinstance(cfg, CFG):
        cfg = CFG.from_json(cfg)
    return Grammar.from_string(cfg.to_parglare(), **kw)


def prod_key(prod):
    """(lhs name, rhs names) of a parglare production; EMPTY dropped."""
    return (prod.symbol.name, tuple(s.name for s in list.__iter__(prod.rhs) if s.name != "EMPTY"))


def prod_index_map(cfg):
    """{(lhs, rhs names): index into cfg.prods}"""
    return {(l, tuple(r)): i for i, (l, r) in enumerate(cfg.prods)}


def cell_by_name(state):
    return {sym.name: acts for sym, acts in state.actions.items()}


def gotos_by_name(state):
    return {sym.name: st for sym, st in state.gotos.items()}


def deterministic_table(table):
    return all(len(acts) == 1 for st in table.states for acts in st.actions.values())
