"""pv - property-based verification harness for parglare (see /verif/DESIGN.md)."""
import os
import sys

VERIF_DIR = os.path.dirname(os.path.dirname(os.path.abspath(__file__)))
REPO_DIR = os.environ.get("PV_REPO", "/repo")

# The code under test is whatever the working tree of REPO_DIR holds right now.
if REPO_DIR not in sys.path:
    sys.path.insert(0, REPO_DIR)
_deps = os.path.join(VERIF_DIR, ".deps")
if os.path.isdir(_deps) and _deps not in sys.path:
    sys.path.append(_deps)
