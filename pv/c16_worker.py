"""Worker of C16: reads a JSON batch of grammars/inputs from stdin, builds tables and forests in this process (whose
PYTHONHASHSEED the parent chose) and prints a JSON list of observations."""
import contextlib
import hashlib
import io
import json
import os
import sys
import tempfile
import shutil

import pv  # noqa: F401
from parglare import GLRParser, Grammar, Parser
from parglare.tables import LALR, SLR
from parglare.tables.persist import table_to_serializable
from parglare.exceptions import SRConflicts, RRConflicts


def second(cls, mk, tb, inputs=()):
    """table hash and conflict report of a second construction in the same directory (it loads the cached
    table the first one wrote)"""
    try:
        with contextlib.redirect_stdout(io.StringIO()), contextlib.redirect_stderr(io.StringIO()):
            p = cls(mk(), tables=tb)
    except (SRConflicts, RRConflicts) as e:
        return {"raises": type(e).__name__,
                "conflicts": [[c.state.state_id, c.term.fqn, [q.prod_id for q in c.productions]] for c in e.conflicts]}
    ser = json.dumps(table_to_serializable(p.table), sort_keys=True)
    out = {"table": hashlib.sha256(ser.encode()).hexdigest(),
           "conflicts": [[c.state.state_id, c.term.fqn, [q.prod_id for q in c.productions]]
                         for c in p.table.sr_conflicts + p.table.rr_conflicts]}
    if cls is GLRParser:
        # forest[i] must mean the same tree with the loaded table as with the calculated one
        forests = []
        for text in inputs:
            try:
                f = p.parse(text)
                n = f.solutions
                forests.append([n if n < 10 ** 9 else str(n)] + [f[i].to_str() for i in range(min(n, 25))])
            except Exception as e:
                forests.append([type(e).__name__, str(e)[:300]])
        out["forests"] = hashlib.sha256(json.dumps(forests).encode()).hexdigest()
    return out


def observe(spec):
    out = {}
    tmp = None
    try:
        if spec.get("text") and not spec.get("only"):
            # single grammars go through a file too, so that the table cache is written and loaded
            spec = dict(spec, files={"g.pg": spec["text"]}, root="g.pg")
        if spec.get("files"):
            tmp = tempfile.mkdtemp(prefix="pv-c16-")
            for name, text in spec["files"].items():
                with open(os.path.join(tmp, name), "w") as f:
                    f.write(text)
            mk = lambda: Grammar.from_file(os.path.join(tmp, spec["root"]))  # noqa: E731
        else:
            mk = lambda: Grammar.from_string(spec["text"])  # noqa: E731
        for tb_name, tb in (("LALR", LALR), ("SLR", SLR)):
            for cls_name, cls in (("LR", Parser), ("GLR", GLRParser)):
                key = "%s/%s" % (cls_name, tb_name)
                if spec.get("only") and key not in spec["only"]:
                    continue
                buf = io.StringIO()
                try:
                    with contextlib.redirect_stdout(buf), contextlib.redirect_stderr(io.StringIO()):
                        if tmp:
                            for f in os.listdir(tmp):
                                if f.endswith(".pgc"):
                                    os.remove(os.path.join(tmp, f))
                        p = cls(mk(), tables=tb)
                except (SRConflicts, RRConflicts) as e:
                    # what a conflict report means: state, terminal, productions (the rendered text also
                    # lists lookahead sets in set order, which carries no meaning)
                    out[key] = {"conflicts": [[c.state.state_id, c.term.fqn, [q.prod_id for q in c.productions]]
                                              for c in e.conflicts]}
                    if tmp:
                        # the table was cached before the conflicts were reported: a second construction
                        # (which loads it) must report the same
                        out[key]["second_construction"] = second(cls, mk, tb)
                    continue
                ser = json.dumps(table_to_serializable(p.table), sort_keys=True)
                obs = {"table": hashlib.sha256(ser.encode()).hexdigest(),
                       "conflicts": [[c.state.state_id, c.term.fqn, [q.prod_id for q in c.productions]]
                                     for c in p.table.sr_conflicts + p.table.rr_conflicts],
                       "order": [[s.fqn for s in st.actions] for st in p.table.states][:40]}
                if tmp:
                    obs["second_construction"] = second(cls, mk, tb, spec["inputs"])
                    pgc = [f for f in os.listdir(tmp) if f.endswith(".pgc")]
                    obs["pgc"] = {f: hashlib.sha256(open(os.path.join(tmp, f), "rb").read()).hexdigest() for f in sorted(pgc)}
                if cls is GLRParser:
                    forests = []
                    for text in spec["inputs"]:
                        try:
                            f = p.parse(text)
                            n = f.solutions
                            forests.append([n if n < 10 ** 9 else str(n)] + [f[i].to_str() for i in range(min(n, 25))])
                        except Exception as e:
                            forests.append([type(e).__name__, str(e)[:300]])
                    obs["forests"] = hashlib.sha256(json.dumps(forests).encode()).hexdigest()
                    obs["forest_sizes"] = [x[0] for x in forests]
                    # the same with consume_input=False: several accepted heads (one per sentence prefix)
                    # are merged into one forest, whose order must not depend on the process either
                    with contextlib.redirect_stdout(io.StringIO()), contextlib.redirect_stderr(io.StringIO()):
                        pp = cls(mk(), tables=tb, consume_input=False)
                    pforests = []
                    for text in spec["inputs"]:
                        try:
                            f = pp.parse(text)
                            n = f.solutions
                            pforests.append([n if n < 10 ** 9 else str(n)] +
                                            [f[i].to_str() for i in range(min(n, 25))])
                        except Exception as e:
                            pforests.append([type(e).__name__, str(e)[:300]])
                    obs["prefix_forests"] = hashlib.sha256(json.dumps(pforests).encode()).hexdigest()
                    obs["prefix_forest_sizes"] = [x[0] for x in pforests]
                else:
                    res = []
                    from pv import budget
                    for text in spec["inputs"]:
                        try:
                            # an LR parser with resolved conflicts may reduce forever; the deterministic line
                            # budget turns that into an observation that is itself comparable between seeds
                            with budget.steps(200000, budget.PARSE_MODULES):
                                res.append(repr(p.parse(text)))
                        except budget.StepBudgetExceeded:
                            res.append("does-not-terminate-within-200000-lines")
                        except Exception as e:
                            res.append([type(e).__name__, str(e)[:300]])
                    obs["results"] = hashlib.sha256(json.dumps(res).encode()).hexdigest()
                out[key] = obs
    finally:
        if tmp:
            shutil.rmtree(tmp, ignore_errors=True)
    return out


def main():
    batch = json.load(sys.stdin)
    res = []
    for spec in batch:
        try:
            res.append(observe(spec))
        except Exception as e:
            res.append({"error": "%s: %s" % (type(e).__name__, str(e)[:300])})
    sys.stdout.write(json.dumps(res, sort_keys=True))


if __name__ == "__main__":
    main()
