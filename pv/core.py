"""Runner core: sub-checks, case context, Hypothesis driving in shards over a
process pool, known-finding bookkeeping, evidence and replay files.
See DESIGN.md section 2."""
import collections
import contextlib
import hashlib
import importlib
import io
import json
import multiprocessing
import os
import sys
import time
import traceback

from . import VERIF_DIR
from .budget import WatchdogTimeout, watchdog, StepBudgetExceeded

NPROC = int(os.environ.get("PV_NPROC", "16"))


class Violation(Exception):
    def __init__(self, kind, **details):
        super().__init__(kind)
        self.kind = kind
        self.details = details

    def __reduce__(self):
        return (_mk_violation, (self.kind, self.details))

    def __str__(self):
        return "%s %s" % (self.kind, json.dumps(self.details, default=repr)[:2000])


def _mk_violation(kind, details):
    return Violation(kind, **details)


class HarnessError(Exception):
    pass


def stable_hash(obj):
    s = json.dumps(obj, sort_keys=True, default=repr)
    return hashlib.sha1(s.encode()).hexdigest()[:16]


class Ctx:
    """Per-shard accumulator handed to run_case."""

    def __init__(self, enabled_findings=(), tier="quick"):
        self.enabled = set(enabled_findings)
        self.tier = tier
        self.evaluations = 0
        self.labels = collections.Counter()
        self.nontrivial_keys = set()
        self.samples = []
        self.excluded = collections.Counter()
        self.inconclusive = 0
        self.metrics = {}
        self.slow_case = None

    # -- statistics -----------------------------------------------------
    def label(self, name, n=1):
        self.labels[name] += n

    def nontrivial(self, key, sample=None):
        h = stable_hash(key)
        if h not in self.nontrivial_keys:
            self.nontrivial_keys.add(h)
            if sample is not None and len(self.samples) < 4:
                self.samples.append(sample)

    def metric_max(self, name, value):
        if value > self.metrics.get(name, float("-inf")):
            self.metrics[name] = value

    # -- verdicts ---------------------------------------------------------
    def fail(self, kind, **details):
        raise Violation(kind, **details)

    def known(self, finding_id, kind, **details):
        """A discrepancy that matches the signature of finding `finding_id`.
        Counted and tolerated only while that finding is open and its witness
        still fails; otherwise an ordinary violation."""
        if finding_id in self.enabled:
            self.excluded[finding_id] += 1
            return
        raise Violation(kind, finding=finding_id, **details)

    def result(self):
        return {
            "evaluations": self.evaluations,
            "labels": dict(self.labels),
            "nontrivial": sorted(self.nontrivial_keys),
            "samples": self.samples,
            "excluded": dict(self.excluded),
            "inconclusive": self.inconclusive,
            "metrics": self.metrics,
            "slow_case": self.slow_case,
        }


class SubCheck:
    """name; strategy(tier) -> hypothesis strategy of JSON-able cases (or None);
    enumerate(tier) -> iterable of cases for exhaustive spaces (or None);
    run_case(case, ctx); examples = {"quick": n, "thorough": n};
    case_timeout seconds for the inconclusive-only watchdog."""

    def __init__(self, name, run_case, strategy=None, enumerate=None,
                 examples=None, case_timeout=120, shards=None, setup=None):
        self.name = name
        self.run_case = run_case
        self.strategy = strategy
        self.enumerate = enumerate
        self.examples = examples or {"quick": 200, "thorough": 2000}
        self.case_timeout = case_timeout
        self.shards = shards or {"quick": NPROC, "thorough": NPROC * 2}
        self.setup = setup


def load_prop(prop_id):
    return importlib.import_module("pv.props.%s" % prop_id.lower())


@contextlib.contextmanager
def quiet():
    """parglare prints tables/conflicts to stdout; keep the check's own output
    clean."""
    out, err = io.StringIO(), io.StringIO()
    with contextlib.redirect_stdout(out), contextlib.redirect_stderr(err):
        yield


def _call_case(sub, case, ctx):
    ctx.evaluations += 1
    t0 = time.time()
    try:
        with watchdog(sub.case_timeout):
            with quiet():
                sub.run_case(case, ctx)
    except WatchdogTimeout:
        ctx.inconclusive += 1
        ctx.label("inconclusive:watchdog")
    finally:
        d = time.time() - t0
        if d > ctx.metrics.get("slowest_case_s", 0):
            ctx.metrics["slowest_case_s"] = round(d, 2)
            if d > 5:
                ctx.slow_case = {"seconds": round(d, 1), "case": case}


def _shard_seed(seed, sub_name, shard):
    h = int(hashlib.sha1(sub_name.encode()).hexdigest()[:6], 16)
    return (seed * 1000003 + h * 131 + shard) % (2 ** 62)


def run_shard(args):
    """Worker entry.  Returns a picklable dict."""
    prop_id, sub_name, tier, seed, shard, nshards, n_examples, enabled = args
    t0 = time.time()
    res = {"sub": sub_name, "shard": shard, "failures": [], "error": None}
    ctx = Ctx(enabled, tier)
    try:
        mod = load_prop(prop_id)
        sub = mod.subcheck(sub_name)
        if sub.setup:
            sub.setup()
        if shard < 0:
            # exhaustive enumeration shard: -1-k
            k = -1 - shard
            for idx, case in enumerate(sub.enumerate(tier)):
                if idx % nshards != k:
                    continue
                try:
                    _call_case(sub, case, ctx)
                except Violation as v:
                    res["failures"].append({"case": case, "kind": v.kind,
                                            "details": v.details})
                    if len(res["failures"]) >= 3:
                        break
        else:
            import hypothesis
            from hypothesis import HealthCheck, Phase, given, settings

            last = {}
            phases = [Phase.explicit, Phase.generate, Phase.shrink]
            if os.environ.get("PV_NO_SHRINK"):
                phases = [Phase.explicit, Phase.generate]

            @hypothesis.seed(_shard_seed(seed, sub_name, shard))
            @settings(max_examples=n_examples, database=None, deadline=None,
                      derandomize=False, report_multiple_bugs=False,
                      phases=phases,
                      suppress_health_check=[HealthCheck.too_slow,
                                             HealthCheck.data_too_large,
                                             HealthCheck.large_base_example])
            @given(sub.strategy(tier))
            def test(case):
                last["case"] = case
                _call_case(sub, case, ctx)

            try:
                with quiet():
                    test()
            except Violation as v:
                res["failures"].append({"case": last.get("case"), "kind": v.kind,
                                        "details": v.details})
    except StepBudgetExceeded as e:  # escaped a sub-check that does not handle it
        res["error"] = "unhandled StepBudgetExceeded: %s" % e
    except BaseException as e:  # harness error, never a violation
        if isinstance(e, KeyboardInterrupt):
            raise
        res["error"] = "".join(traceback.format_exception(type(e), e, e.__traceback__))[-4000:]
        if "case" in locals().get("last", {}):
            res["error_case"] = locals()["last"]["case"]
    res["stats"] = ctx.result()
    res["wall"] = time.time() - t0
    return res


def run_fuzz_campaigns(prop_id, specs, seed, enabled):
    """atheris/libFuzzer campaigns driving the same run_case (pv/fuzz.py), one
    process per shard.  Every violation a campaign reports is re-validated
    through replay_case, so the verdict never depends on the fuzzer process.
    Unavailable atheris is reported in the labels, not as an error."""
    import subprocess
    import tempfile
    import shutil
    from . import REPO_DIR
    out = []
    deps = os.path.join(VERIF_DIR, ".deps")
    env = dict(os.environ)
    env["PYTHONPATH"] = os.pathsep.join([REPO_DIR, VERIF_DIR, deps])
    env["PV_ENABLED"] = json.dumps(list(enabled))
    probe = subprocess.run([sys.executable, "-c", "import atheris"], env=env, capture_output=True)
    tmp = tempfile.mkdtemp(prefix="pv-fuzz-")
    try:
        for sub_name, runs in specs:
            runs = max(100, int(runs * float(os.environ.get("PV_FUZZ_SCALE", "1"))))
            name = sub_name + "+atheris"
            if probe.returncode != 0:
                out.append({"sub": name, "shard": 0, "failures": [], "error": None, "wall": 0.0,
                            "stats": {"evaluations": 0, "labels": {"atheris-unavailable": 1}, "nontrivial": [],
                                      "samples": [], "excluded": {}, "inconclusive": 0, "metrics": {}}})
                continue
            procs = []
            t0 = time.time()
            for sh in range(NPROC):
                path = os.path.join(tmp, "%s-%d.json" % (sub_name, sh))
                procs.append((path, subprocess.Popen(
                    [sys.executable, "-m", "pv.fuzz", prop_id, sub_name, str(runs), str(seed * 1000 + sh + 1), path],
                    env=env, cwd=tmp, stdout=subprocess.DEVNULL, stderr=subprocess.DEVNULL)))
            for path, pr in procs:
                try:
                    pr.wait(timeout=3600)
                except subprocess.TimeoutExpired:
                    pr.kill()
                r = {"sub": name, "shard": 0, "failures": [], "error": None, "wall": time.time() - t0,
                     "stats": {"evaluations": 0, "labels": {}, "nontrivial": [], "samples": [], "excluded": {},
                               "inconclusive": 0, "metrics": {}}}
                if os.path.exists(path):
                    d = json.load(open(path))
                    r["stats"] = d["stats"]
                    r["stats"]["labels"]["libfuzzer-executions-decoded"] = d["executions"]
                    for f in d["violations"]:
                        v = replay_case(prop_id, sub_name, f["case"], enabled, "thorough")
                        if v is not None:
                            r["failures"].append({"case": f["case"], "kind": v.kind, "details": v.details})
                out.append(r)
    finally:
        shutil.rmtree(tmp, ignore_errors=True)
    return out


# ------------------------------------------------------------------ findings
def load_findings(prop_id):
    path = os.path.join(VERIF_DIR, "known_findings.json")
    if not os.path.exists(path):
        return []
    with open(path) as f:
        data = json.load(f)
    return [e for e in data["findings"] if prop_id in e["properties"]]


def replay_case(prop_id, sub_name, case, enabled=(), tier="quick"):
    """Run one stored case directly (no Hypothesis).  Returns None or the
    Violation."""
    mod = load_prop(prop_id)
    sub = mod.subcheck(sub_name)
    if sub.setup:
        sub.setup()
    ctx = Ctx(enabled, tier)
    try:
        _call_case(sub, case, ctx)
    except Violation as v:
        return v
    if ctx.inconclusive:
        return Violation("inconclusive-watchdog")
    return None


def _replay_worker(args):
    prop_id, sub_name, case, enabled, tier = args
    try:
        v = replay_case(prop_id, sub_name, case, enabled, tier)
    except BaseException as e:
        return ("error", "".join(traceback.format_exception(type(e), e, e.__traceback__))[-3000:])
    if v is None:
        return ("pass", None)
    return ("fail", {"kind": v.kind, "details": v.details})


def main(prop_id, tier, seed, only_sub=None):
    t0 = time.time()
    prop_id = prop_id.upper()
    mod = load_prop(prop_id)
    lines = []
    violations = []      # (sub, case, kind, details)
    harness_errors = []
    known_lines = []

    pool = multiprocessing.get_context("fork").Pool(NPROC)
    try:
        # ---- 1. known findings: replay witnesses, enable signatures ------
        findings = load_findings(prop_id)
        enabled = []
        jobs = []
        for e in findings:
            wpath = os.path.join(VERIF_DIR, e["witness"])
            with open(wpath) as f:
                w = json.load(f)
            jobs.append((e, w))
        outs = pool.map(_replay_worker,
                        [(w.get("property", prop_id), w["sub"], w["case"], (), tier)
                         for e, w in jobs])
        for (e, w), (status, info) in zip(jobs, outs):
            if status == "error":
                harness_errors.append("witness %s: %s" % (e["id"], info))
                continue
            if e["status"] == "open":
                if status == "fail" and info["details"].get("finding") == e["id"]:
                    enabled.append(e["id"])
                    if w.get("property", prop_id) == prop_id or True:
                        known_lines.append("KNOWN-FINDING: property=%s %s [%s] witness=%s"
                                           % (prop_id, e["what"], e["id"], e["witness"]))
                elif status == "fail":
                    # the witness fails in a way its signature does not cover
                    violations.append((w["sub"], w["case"], info["kind"], info["details"]))
                # witness passes: finding no longer reproduces -> stay strict
            else:  # fixed: must pass, suppresses nothing
                if status == "fail":
                    violations.append((w["sub"], w["case"], info["kind"], info["details"]))

        # ---- 2. regress corpus -------------------------------------------
        rdir = os.path.join(VERIF_DIR, "regress", prop_id)
        rjobs = []
        if os.path.isdir(rdir):
            for fn in sorted(os.listdir(rdir)):
                if not fn.endswith(".json"):
                    continue
                with open(os.path.join(rdir, fn)) as f:
                    w = json.load(f)
                if w.get("role") == "witness" or "case" not in w:
                    continue  # witnesses are handled above; other data files
                if only_sub and w["sub"] != only_sub:
                    continue
                rjobs.append((fn, w))
        outs = pool.map(_replay_worker,
                        [(prop_id, w["sub"], w["case"], tuple(enabled), tier) for fn, w in rjobs])
        n_regress = len(rjobs)
        for (fn, w), (status, info) in zip(rjobs, outs):
            if status == "error":
                harness_errors.append("regress %s: %s" % (fn, info))
            elif status == "fail":
                violations.append((w["sub"], w["case"], info["kind"], info["details"]))

        # ---- 3. generated search -------------------------------------------
        tasks = []
        for sub in mod.SUBCHECKS:
            if only_sub and sub.name != only_sub:
                continue
            n = int(sub.examples.get(tier, 0) * float(os.environ.get("PV_SCALE", "1")))
            if sub.strategy is not None and n > 0:
                nsh = min(sub.shards[tier], max(1, n // 5))
                per = max(1, n // nsh)
                for sh in range(nsh):
                    tasks.append((prop_id, sub.name, tier, seed, sh, nsh, per, tuple(enabled)))
            if sub.enumerate is not None and sub.enumerate(tier) is not None:
                nsh = sub.shards[tier]
                for sh in range(nsh):
                    tasks.append((prop_id, sub.name, tier, seed, -1 - sh, nsh, 0, tuple(enabled)))
        results = pool.map(run_shard, tasks, chunksize=1)
    finally:
        pool.terminate()
        pool.join()

    # ---- 3b. optional coverage-guided campaigns (thorough tier) ----------
    fuzz_specs = getattr(mod, "FUZZ", []) if tier == "thorough" and not only_sub else []
    if fuzz_specs:
        results = list(results) + run_fuzz_campaigns(prop_id, fuzz_specs, seed, enabled)

    # ---- 4. merge -------------------------------------------------------
    per_sub = collections.OrderedDict()
    total_eval = n_regress + len(findings)
    nontrivial = set()
    samples = []
    excluded = collections.Counter()
    inconclusive = 0
    metrics = {}
    slow_cases = []
    for r in results:
        s = per_sub.setdefault(r["sub"], {"evaluations": 0, "labels": collections.Counter(),
                                          "nontrivial": set(), "wall": 0.0, "shards": 0,
                                          "exhaustive": False})
        st = r["stats"]
        s["evaluations"] += st["evaluations"]
        s["labels"].update(st["labels"])
        s["nontrivial"].update(st["nontrivial"])
        s["wall"] = max(s["wall"], r["wall"])
        s["shards"] += 1
        if r["shard"] < 0:
            s["exhaustive"] = True
        total_eval += st["evaluations"]
        nontrivial.update((r["sub"], k) for k in st["nontrivial"])
        for smp in st["samples"]:
            if len([1 for x in samples if x.get("sub") == r["sub"]]) < 4 and len(samples) < 16:
                samples.append({"sub": r["sub"], "case": smp})
        excluded.update(st["excluded"])
        inconclusive += st["inconclusive"]
        if st.get("slow_case"):
            slow_cases.append({"sub": r["sub"], **st["slow_case"]})
        for k, v in st["metrics"].items():
            if v > metrics.get(k, float("-inf")):
                metrics[k] = v
        if r["error"]:
            harness_errors.append("%s shard %s: %s" % (r["sub"], r["shard"], r["error"]))
        for f in r["failures"]:
            violations.append((r["sub"], f["case"], f["kind"], f["details"]))

    if total_eval and inconclusive / max(1, total_eval) > 0.02:
        harness_errors.append("%d of %d cases hit the wall-clock watchdog" % (inconclusive, total_eval))

    # gates declared by the property module (generator health)
    gate = getattr(mod, "health_gate", None)
    if gate and not only_sub:
        msg = gate({k: dict(v["labels"]) for k, v in per_sub.items()}, tier)
        if msg:
            harness_errors.append(msg)

    # ---- 5. replay files, evidence, exit code -----------------------------
    seen = set()
    vio_lines = []
    # PV_OUT_DIR: scratch output directory for development runs against a modified copy of the repository
    # (seeded-change sweeps), so that they never overwrite the evidence of the registered checks
    out_root = os.environ.get("PV_OUT_DIR") or VERIF_DIR
    rep_dir = os.path.join(out_root, "replays", prop_id)
    for sub_name, case, kind, details in violations:
        sig = (sub_name, kind, stable_hash(case))
        if sig in seen:
            continue
        seen.add(sig)
        os.makedirs(rep_dir, exist_ok=True)
        path = os.path.join(rep_dir, "%s-%s-%s.json" % (sub_name, kind.replace("/", "_")[:40],
                                                        stable_hash(case)[:10]))
        with open(path, "w") as f:
            json.dump({"property": prop_id, "sub": sub_name, "case": case, "kind": kind,
                       "details": details, "seed": seed, "tier": tier},
                      f, indent=1, default=repr, sort_keys=True)
        vio_lines.append("VIOLATION property=%s replay=%s" % (prop_id, path))
        lines.append("  %s: %s %s" % (sub_name, kind, json.dumps(details, default=repr)[:600]))

    wall = time.time() - t0
    if not samples:
        samples = [{"note": "no non-trivial sample collected"}]
    evidence = {
        "property_id": prop_id,
        "tier": tier,
        "seed": seed,
        "level": "exploration",
        "coverage": {
            "evaluations": total_eval,
            "distinct_nontrivial": len(nontrivial),
            "rule": mod.RULE,
            "samples": samples,
            "exhaustive": False,
            "sub_checks": {
                k: {"evaluations": v["evaluations"],
                    "distinct_nontrivial": len(v["nontrivial"]),
                    "labels": dict(sorted(v["labels"].items())),
                    "exhaustive_enumeration": v["exhaustive"],
                    "shards": v["shards"], "max_shard_wall_s": round(v["wall"], 1)}
                for k, v in per_sub.items()},
            "regress_cases_replayed": n_regress,
            "known_findings_enabled": enabled,
            "excluded_known": dict(excluded),
            "inconclusive": inconclusive,
            "metrics": metrics,
            "slow_cases": sorted(slow_cases, key=lambda x: -x["seconds"])[:3],
        },
        "assumptions": list(getattr(mod, "ASSUMPTIONS", [])),
        "wall_s": round(wall, 2),
        "violations": len(vio_lines),
    }
    os.makedirs(os.path.join(out_root, "evidence"), exist_ok=True)
    if not only_sub:
        with open(os.path.join(out_root, "evidence", "%s.json" % prop_id), "w") as f:
            json.dump(evidence, f, indent=1, sort_keys=True, default=repr)

    print("%s tier=%s seed=%d: %d cases (%d distinct non-trivial), %d regress, "
          "%d excluded-known, %d inconclusive, %.1fs"
          % (prop_id, tier, seed, total_eval, len(nontrivial), n_regress,
             sum(excluded.values()), inconclusive, wall))
    for k, v in per_sub.items():
        print("  sub %-28s cases=%-6d nontrivial=%-6d wall=%.0fs" %
              (k, v["evaluations"], len(v["nontrivial"]), v["wall"]))
    for sc in sorted(slow_cases, key=lambda x: -x["seconds"])[:2]:
        print("  slow case (%ss) in %s: %s" % (sc["seconds"], sc["sub"], json.dumps(sc["case"])[:400]))
    for l in known_lines:
        print(l)
    for l in lines:
        print(l)
    for l in vio_lines:
        print(l)
    if harness_errors:
        for h in harness_errors[:5]:
            print("HARNESS-ERROR %s" % h.strip().replace("\n", "\n    "))
    sys.stdout.flush()
    if vio_lines:
        return 1
    if harness_errors:
        return 2
    return 0
