"""parglare trees / forests -> canonical tuples, local validity, SPPF walkers
and independent counters (DESIGN 4, canonicalisation)."""
from . import pgl  # noqa: F401


def is_term(n):
    return n.is_term()


def canon(node):
    """NodeNonTerm/NodeTerm (LR build_tree, get_first_tree) or Tree/LazyTree
    (forest[i]) -> (lhs, rhs names, children) / (terminal, start, end)"""
    # iterative to survive deep trees
    out = {}
    stack = [(node, False)]
    while stack:
        n, done = stack.pop()
        if n.is_term():
            out[id(n)] = (n.symbol.name, n.start_position, n.end_position)
            continue
        if not isinstance(n.children, (list, tuple)):
            # a malformed tree is a finding about the code under test, not a harness error
            from .core import Violation
            raise Violation("non-terminal-node-without-a-children-list", node=n.symbol.name,
                            children=repr(n.children)[:100], tree_class=type(node).__name__)
        kids = list(n.children)
        if not done:
            stack.append((n, True))
            for k in kids:
                stack.append((k, False))
        else:
            p = n.production
            out[id(n)] = (p.symbol.name, pgl.prod_key(p)[1], tuple(out[id(k)] for k in kids))
    return out[id(node)]


def canon_leaves(t, acc=None):
    acc = [] if acc is None else acc
    stack = [t]
    while stack:
        x = stack.pop()
        if len(x) == 3 and isinstance(x[1], tuple):
            stack.extend(reversed(x[2]))
        else:
            acc.append(x)
    return acc


def is_leaf(t):
    return not isinstance(t[1], tuple)


def check_derivation(t, cfg, chart, ctx=None):
    """Full derivation check of a canonical tree against the grammar and the
    token DAG of the input: returns None or a reason string."""
    prods = {(l, tuple(r)) for l, r in cfg.prods}
    if is_leaf(t):
        return "root is a terminal"
    if t[0] != cfg.start:
        return "root %s is not the start symbol" % t[0]
    stack = [t]
    while stack:
        x = stack.pop()
        if is_leaf(x):
            continue
        lhs, rhs, kids = x
        if (lhs, rhs) not in prods:
            return "no production %s -> %s" % (lhs, " ".join(rhs))
        if len(kids) != len(rhs):
            return "production %s -> %s applied to %d children" % (lhs, " ".join(rhs), len(kids))
        for s, k in zip(rhs, kids):
            if k[0] != s:
                return "child %s where %s expected in %s -> %s" % (k[0], s, lhs, " ".join(rhs))
            if is_leaf(k) and cfg.is_nt(s):
                return "terminal node for non-terminal %s" % s
            if not is_leaf(k) and not cfg.is_nt(s):
                return "interior node for terminal %s" % s
        stack.extend(kids)
    # leaves form a path of the token DAG from node 0 to a final node
    node = 0
    for (name, start, end) in canon_leaves(t):
        if not any(e == (name, start, end) for e in chart.edges.get(node, ())):
            return "leaf %s[%s:%s] is not a token of the input at node %d" % (name, start, end, node)
        node = end
    if node not in chart.edges or not chart.is_final(node):
        return "leaves end at %d, not at the end of the input" % node
    return None


# ----------------------------------------------------------------- SPPF
def walk_sppf(root_parent):
    """Visit every Parent (packed node) and every alternative once.  Yields
    (parent, alternative) pairs; works on cyclic forests."""
    from parglare.glr import Parent
    seen = set()
    stack = [root_parent]
    while stack:
        par = stack.pop()
        if id(par) in seen:
            continue
        seen.add(id(par))
        for alt in par.possibilities:
            yield par, alt
            if alt.is_nonterm():
                for c in alt.children:
                    if isinstance(c, Parent):
                        stack.append(c)


def packed_key(alt):
    """identity of one packed alternative: production + child spans"""
    if alt.is_term():
        return ("T", alt.symbol.name, alt.start_position, alt.end_position)
    kids = tuple((c.head.symbol.name if hasattr(c, "head") else c.symbol.name,
                  c.start_position, c.end_position) for c in alt.children)
    return ("N",) + pgl.prod_key(alt.production) + (kids,)


def raw_count(root_parent):
    """number of trees the packed structure represents, counting duplicate
    alternatives separately (what len() is defined to compute); own
    implementation, raises RecursionError-free Infinite on cycles."""
    from parglare.glr import Parent
    memo = {}
    ON = object()

    def cnt_parent(par):
        k = id(par)
        if k in memo:
            if memo[k] is ON:
                raise Cyclic()
            return memo[k]
        memo[k] = ON
        total = 0
        for alt in par.possibilities:
            if alt.is_term():
                total += 1
            else:
                prod = 1
                for c in alt.children:
                    prod *= cnt_parent(c) if isinstance(c, Parent) else 1
                total += prod
        memo[k] = total
        return total

    import sys
    old = sys.getrecursionlimit()
    sys.setrecursionlimit(max(old, 10000))
    try:
        return cnt_parent(root_parent)
    finally:
        sys.setrecursionlimit(old)


def expand(root_parent, limit=5000):
    """All trees of the packed structure as canonical tuples, by own recursive
    expansion (independent of parglare's index decoding).  Raises TooMany."""
    from parglare.glr import Parent
    memo = {}
    ON = object()

    def ex_parent(par):
        k = id(par)
        if k in memo:
            if memo[k] is ON:
                raise Cyclic()
            return memo[k]
        memo[k] = ON
        out = []
        for alt in par.possibilities:
            if alt.is_term():
                out.append((alt.symbol.name, alt.start_position, alt.end_position))
            else:
                combos = [()]
                for c in alt.children:
                    subs = ex_parent(c) if isinstance(c, Parent) else [canon(c)]
                    combos = [x + (t,) for x in combos for t in subs]
                    if len(combos) > limit:
                        raise TooManyTrees()
                p = alt.production
                for x in combos:
                    out.append((p.symbol.name, pgl.prod_key(p)[1], x))
            if len(out) > limit:
                raise TooManyTrees()
        memo[k] = out
        return out

    import sys
    old = sys.getrecursionlimit()
    sys.setrecursionlimit(max(old, 10000))
    try:
        return ex_parent(root_parent)
    finally:
        sys.setrecursionlimit(old)


def ambiguous_nodes(root_parent, distinct=True):
    """number of packed nodes with more than one (distinct) alternative"""
    n = 0
    seen = {}
    for par, alt in walk_sppf(root_parent):
        seen.setdefault(id(par), []).append(alt)
    for alts in seen.values():
        if distinct:
            keys = set()
            for a in alts:
                keys.add(alt_identity(a))
            if len(keys) > 1:
                n += 1
        elif len(alts) > 1:
            n += 1
    return n


def alt_identity(alt):
    """two alternatives are identical iff same production and the very same
    child objects (same packed children)"""
    if alt.is_term():
        return ("T", alt.symbol.name, alt.start_position, alt.end_position)
    return ("N", id(alt.production)) + tuple(id(c) for c in alt.children)


def duplicate_alternatives(root_parent):
    """list of packed nodes that hold two identical alternatives"""
    per = {}
    for par, alt in walk_sppf(root_parent):
        per.setdefault(id(par), (par, []))[1].append(alt_identity(alt))
    return [par for par, ids in per.values() if len(set(ids)) < len(ids)]


class Cyclic(Exception):
    pass


class TooManyTrees(Exception):
    pass
