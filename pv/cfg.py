"""Plain context-free grammar model, analyses and emitter to parglare's grammar
language.  Shares no code with parglare.

A grammar is JSON-serialisable::

    {"nts":   ["S", "A"],
     "terms": [["a", "str", "a"], ["T", "re", "[ab]+"]],
     "prods": [["S", ["A", "a"]], ["A", []], ...]}

The start symbol is nts[0]; productions of one non-terminal keep their relative
order (that order is the alternative index parglare assigns).
"""
from collections import OrderedDict


class CFG:
    def __init__(self, nts, terms, prods):
        self.nts = list(nts)
        self.terms = [tuple(t) for t in terms]
        self.term_names = [t[0] for t in self.terms]
        self.prods = [(l, tuple(r)) for l, r in prods]
        self.start = self.nts[0]
        self.by_lhs = OrderedDict((n, []) for n in self.nts)
        for idx, (l, r) in enumerate(self.prods):
            self.by_lhs[l].append((idx, r))
        self._nullable = None
        self._first = None

    # ------------------------------------------------------------------ json
    def to_json(self):
        return {
            "nts": list(self.nts),
            "terms": [list(t) for t in self.terms],
            "prods": [[l, list(r)] for l, r in self.prods],
        }

    @staticmethod
    def from_json(d):
        return CFG(d["nts"], d["terms"], d["prods"])

    def key(self):
        return (tuple(self.nts), tuple(self.terms), tuple(self.prods))

    # -------------------------------------------------------------- analyses
    def is_nt(self, s):
        return s in self.by_lhs

    def nullable(self):
        if self._nullable is None:
            nul = set()
            changed = True
            while changed:
                changed = False
                for l, r in self.prods:
                    if l not in nul and all(s in nul for s in r):
                        nul.add(l)
                        changed = True
            self._nullable = nul
        return self._nullable

    def productive(self):
        prod = set()
        changed = True
        while changed:
            changed = False
            for l, r in self.prods:
                if l not in prod and all((not self.is_nt(s)) or s in prod for s in r):
                    prod.add(l)
                    changed = True
        return prod

    def reachable(self):
        seen = {self.start}
        todo = [self.start]
        while todo:
            n = todo.pop()
            for _, r in self.by_lhs[n]:
                for s in r:
                    if self.is_nt(s) and s not in seen:
                        seen.add(s)
                        todo.append(s)
        return seen

    def used_terms(self):
        used = []
        for _, r in self.prods:
            for s in r:
                if not self.is_nt(s) and s not in used:
                    used.append(s)
        return used

    def unit_closure(self):
        """rel[A] = set of B with A =>+ B by a derivation whose other symbols
        all vanish (A -> alpha B beta, alpha beta nullable)."""
        nul = self.nullable()
        step = {n: set() for n in self.nts}
        for l, r in self.prods:
            for i, s in enumerate(r):
                if self.is_nt(s) and all(x in nul for x in r[:i] + r[i + 1:]):
                    step[l].add(s)
        clo = {n: set(step[n]) for n in self.nts}
        changed = True
        while changed:
            changed = False
            for n in self.nts:
                for m in list(clo[n]):
                    new = clo[m] - clo[n]
                    if new:
                        clo[n] |= new
                        changed = True
        return clo

    def is_cyclic(self):
        """Some non-terminal derives itself (A =>+ A): infinitely ambiguous."""
        clo = self.unit_closure()
        return any(n in clo[n] for n in self.nts)

    def first(self):
        if self._first is None:
            nul = self.nullable()
            fst = {n: set() for n in self.nts}
            changed = True
            while changed:
                changed = False
                for l, r in self.prods:
                    for s in r:
                        add = fst[s] if self.is_nt(s) else {s}
                        if not add <= fst[l]:
                            fst[l] |= add
                            changed = True
                        if not (self.is_nt(s) and s in nul):
                            break
            self._first = fst
        return self._first

    def first_of_seq(self, seq):
        """(set of terminals, nullable?) of a symbol sequence."""
        nul = self.nullable()
        fst = self.first()
        out = set()
        for s in seq:
            if self.is_nt(s):
                out |= fst[s]
                if s not in nul:
                    return out, False
            else:
                out.add(s)
                return out, False
        return out, True

    def left_recursive(self):
        nul = self.nullable()
        step = {n: set() for n in self.nts}
        for l, r in self.prods:
            for s in r:
                if self.is_nt(s):
                    step[l].add(s)
                    if s not in nul:
                        break
                else:
                    break
        return _has_cycle(step)

    def hidden_left_recursive(self):
        """left recursion that passes through a nullable prefix"""
        nul = self.nullable()
        plain = {n: set() for n in self.nts}
        full = {n: set() for n in self.nts}
        for l, r in self.prods:
            for i, s in enumerate(r):
                if self.is_nt(s):
                    full[l].add(s)
                    if i == 0:
                        plain[l].add(s)
                    if s not in nul:
                        break
                else:
                    break
        return _has_cycle(full) and not _has_cycle(plain)

    def right_recursive(self):
        nul = self.nullable()
        step = {n: set() for n in self.nts}
        for l, r in self.prods:
            for s in reversed(r):
                if self.is_nt(s):
                    step[l].add(s)
                    if s not in nul:
                        break
                else:
                    break
        return _has_cycle(step)

    def labels(self):
        out = []
        if self.nullable():
            out.append("nullable")
        if self.left_recursive():
            out.append("left-rec")
        if self.right_recursive():
            out.append("right-rec")
        if self.hidden_left_recursive():
            out.append("hidden-left-rec")
        if self.is_cyclic():
            out.append("cyclic")
        return out

    # --------------------------------------------------------------- emitter
    def to_parglare(self, extra_rules="", extra_terminals="", prod_meta=None, term_meta=None):
        """prod_meta: optional {production index: "left, 5"}; term_meta:
        optional {terminal name: "5"}"""
        lines = []
        for n in self.nts:
            alts = []
            for idx, r in self.by_lhs[n]:
                body = " ".join(r) if r else "EMPTY"
                if prod_meta and idx in prod_meta and prod_meta[idx]:
                    body += " {%s}" % prod_meta[idx]
                alts.append(body)
            lines.append("%s: %s;" % (n, " | ".join(alts)))
        if extra_rules:
            lines.append(extra_rules)
        tl = []
        for name, kind, value in self.terms:
            m = " {%s}" % term_meta[name] if term_meta and term_meta.get(name) else ""
            tl.append("%s: %s%s;" % (name, term_literal(kind, value), m))
        if extra_terminals:
            tl.append(extra_terminals)
        if tl:
            lines.append("terminals")
            lines.extend(tl)
        return "\n".join(lines) + "\n"


def term_literal(kind, value):
    if kind == "str":
        return "'%s'" % value.replace("\\", "\\\\").replace("'", "\\'")
    if kind == "re":
        return "/%s/" % value
    if kind == "empty":
        return ""
    raise ValueError(kind)


def _has_cycle(step):
    clo = {n: set(v) for n, v in step.items()}
    changed = True
    while changed:
        changed = False
        for n in clo:
            for m in list(clo[n]):
                new = clo.get(m, set()) - clo[n]
                if new:
                    clo[n] |= new
                    changed = True
    return any(n in clo[n] for n in clo)


def normalise(nts, terms, prods):
    """Make a raw (nts, terms, prods) triple satisfy the documented precondition
    'every non-terminal is productive and reachable' by construction: an
    unproductive non-terminal gets a terminal alternative, unreachable ones and
    duplicate alternatives are dropped, unused terminals are dropped."""
    prods = [(l, tuple(r)) for l, r in prods]
    seen = set()
    uniq = []
    for p in prods:
        if p not in seen:
            seen.add(p)
            uniq.append(p)
    prods = uniq
    for n in nts:
        if not any(l == n for l, _ in prods):
            prods.append((n, (terms[0][0],)))
    g = CFG(nts, terms, prods)
    prod_set = g.productive()
    k = 0
    for n in nts:
        if n not in prod_set:
            alt = (n, (terms[k % len(terms)][0],))
            k += 1
            if alt not in prods:
                prods.append(alt)
    g = CFG(nts, terms, prods)
    reach = g.reachable()
    nts2 = [n for n in nts if n in reach]
    prods2 = [(l, r) for l, r in prods if l in reach]
    g = CFG(nts2, terms, prods2)
    used = g.used_terms()
    terms2 = [t for t in terms if t[0] in used]
    if not terms2:
        terms2 = [terms[0]]
    return CFG(nts2, terms2, prods2)
