"""Reference recogniser / derivation enumerator over a token DAG (DESIGN 4,
R-chart).  Independent of parglare: uses only the terminals' documented
matching rules (string = literal comparison, regex = re.match, non-empty) and a
layout skipper.

Node  = character position where the previous token ended (before layout).
Edge  = (terminal name, token start after layout, token end).
"""
import re


class Lexicon:
    def __init__(self, terms, ws=" \t\r\n", layout_re=None, ignore_case=False):
        """terms: [(name, kind, value)], kind in {"str", "re"}"""
        self.terms = [tuple(t) for t in terms]
        self.ws = ws or ""
        self.layout_re = re.compile(layout_re) if layout_re else None
        self.ignore_case = ignore_case
        self._re = {}
        for name, kind, value in self.terms:
            if kind == "re":
                flags = re.MULTILINE | (re.IGNORECASE if ignore_case else 0)
                self._re[name] = re.compile(value, flags)

    def skip(self, text, p):
        if self.layout_re is not None:
            m = self.layout_re.match(text, p)
            return m.end() if m else p
        n = len(text)
        while p < n and text[p] in self.ws:
            p += 1
        return p

    def match(self, name, kind, value, text, q):
        """length of the match of one terminal at q, or 0"""
        if kind == "str":
            seg = text[q:q + len(value)]
            if self.ignore_case:
                return len(value) if seg.lower() == value.lower() else 0
            return len(value) if seg == value else 0
        m = self._re[name].match(text, q)
        return len(m.group()) if m and m.group() else 0

    def edges_from(self, text, p):
        q = self.skip(text, p)
        out = []
        if q < len(text):
            for name, kind, value in self.terms:
                n = self.match(name, kind, value, text, q)
                if n:
                    out.append((name, q, q + n))
        return q, out


class Chart:
    """All analyses of one (grammar, lexicon, text)."""

    def __init__(self, cfg, lexicon, text):
        self.g = cfg
        self.lex = lexicon
        self.text = text
        self.n = len(text)
        # ---- token DAG --------------------------------------------------
        self.edges = {}
        self.skipped = {}
        todo = [0]
        while todo:
            p = todo.pop()
            if p in self.edges:
                continue
            q, es = lexicon.edges_from(text, p)
            self.skipped[p] = q
            self.edges[p] = es
            for _, _, e in es:
                if e not in self.edges:
                    todo.append(e)
        self.nodes = sorted(self.edges)
        self._spans = None
        self._earley = None
        self._trees = {}
        self._count = {}

    def is_final(self, p):
        return self.skipped[p] == self.n

    # ------------------------------------------------------------- Earley
    def earley(self):
        """S[p] = set of (prod, dot, origin); prod -1 is S' -> start"""
        if self._earley is not None:
            return self._earley
        g = self.g
        S = {p: set() for p in self.nodes}

        def rhs(p):
            return (g.start,) if p == -1 else g.prods[p][1]

        S[0].add((-1, 0, 0))
        for p in self.nodes:
            cur = S[p]
            changed = True
            while changed:
                changed = False
                for item in list(cur):
                    pr, d, o = item
                    r = rhs(pr)
                    if d < len(r):
                        s = r[d]
                        if g.is_nt(s):
                            for q, _ in g.by_lhs[s]:
                                it = (q, 0, p)
                                if it not in cur:
                                    cur.add(it)
                                    changed = True
                    else:
                        lhs = "S'" if pr == -1 else g.prods[pr][0]
                        for (pr2, d2, o2) in list(S[o]):
                            r2 = rhs(pr2)
                            if d2 < len(r2) and r2[d2] == lhs:
                                it = (pr2, d2 + 1, o2)
                                if it not in cur:
                                    cur.add(it)
                                    changed = True
            for (t, q, e) in self.edges[p]:
                for (pr, d, o) in cur:
                    r = rhs(pr)
                    if d < len(r) and r[d] == t:
                        S[e].add((pr, d + 1, o))
        self._earley = S
        return S

    def accepts(self):
        S = self.earley()
        return any((-1, 1, 0) in S[p] and self.is_final(p) for p in self.nodes)

    def sentence_prefix_ends(self):
        """nodes p such that the tokens read up to p form a sentence"""
        S = self.earley()
        return [p for p in self.nodes if (-1, 1, 0) in S[p]]

    def expected_at(self, p):
        """terminal names that can extend the viable prefix ending at node p
        (plus "STOP" when that prefix is a sentence)"""
        S = self.earley()
        g = self.g
        out = set()
        for (pr, d, o) in S[p]:
            r = (g.start,) if pr == -1 else g.prods[pr][1]
            if d < len(r) and not g.is_nt(r[d]):
                out.add(r[d])
        if (-1, 1, 0) in S[p]:
            out.add("STOP")
        return out

    def error_analysis(self):
        """For a non-sentence over an unambiguous lexicon (the DAG is a path):
        (error position, expected terminal names, viable prefix token count).
        Error position = start of the first token that cannot extend any
        sentence prefix = end of the longest viable prefix plus layout."""
        S = self.earley()
        live = [p for p in self.nodes if S[p]]
        # farthest live node: every live node is reached by a viable prefix
        p = max(live)
        depth = 0
        cur = 0
        while cur != p:
            nxt = [e for (_, _, e) in self.edges[cur] if S[e]]
            cur = max(nxt)
            depth += 1
        return self.skipped[p], self.expected_at(p), depth, p

    # -------------------------------------------------------------- spans
    def spans(self):
        """{X: set((i, j))}: X derives the tokens on some path from node i to j"""
        if self._spans is not None:
            return self._spans
        g = self.g
        sp = {n: set() for n in g.nts}
        tedge = {}
        for p in self.nodes:
            for (t, q, e) in self.edges[p]:
                tedge.setdefault((t, p), set()).add(e)
        self._tedge = tedge
        changed = True
        while changed:
            changed = False
            by_start = {n: {} for n in g.nts}
            for n in g.nts:
                for (i, j) in sp[n]:
                    by_start[n].setdefault(i, set()).add(j)
            for l, r in g.prods:
                for i in self.nodes:
                    cur = {i}
                    for s in r:
                        nxt = set()
                        if g.is_nt(s):
                            for c in cur:
                                nxt |= by_start[s].get(c, set())
                        else:
                            for c in cur:
                                nxt |= tedge.get((s, c), set())
                        cur = nxt
                        if not cur:
                            break
                    for j in cur:
                        if (i, j) not in sp[l]:
                            sp[l].add((i, j))
                            changed = True
        self._spans = sp
        return sp

    def _splits(self, rhs, k, i, j):
        """yield tuples of (symbol, a, b) covering nodes i..j for rhs[k:]"""
        g = self.g
        sp = self.spans()
        if k == len(rhs):
            if i == j:
                yield ()
            return
        s = rhs[k]
        if g.is_nt(s):
            mids = sorted(b for (a, b) in sp[s] if a == i and b <= j)
        else:
            mids = sorted(e for e in self._tedge.get((s, i), ()) if e <= j)
        for m in mids:
            for rest in self._splits(rhs, k + 1, m, j):
                yield ((s, i, m),) + rest

    def count(self, X, i, j, _stack=None):
        """number of derivation trees of X over i..j; raises Infinite on a
        cyclic derivation"""
        key = (X, i, j)
        if key in self._count:
            return self._count[key]
        stack = _stack if _stack is not None else set()
        if key in stack:
            raise Infinite(key)
        stack.add(key)
        total = 0
        if (i, j) in self.spans()[X]:
            for _, r in self.g.by_lhs[X]:
                for split in self._splits(r, 0, i, j):
                    prod = 1
                    for (s, a, b) in split:
                        if self.g.is_nt(s):
                            prod *= self.count(s, a, b, stack)
                        # a terminal edge with a given (name, start node, end)
                        # is unique
                        if not prod:
                            break
                    total += prod
        stack.discard(key)
        self._count[key] = total
        return total

    def trees(self, X, i, j, limit=20000):
        """list of canonical trees (lhs, rhs names, children) / (term, start,
        end) of X over i..j.  Acyclic derivations only (raises Infinite)."""
        key = (X, i, j)
        if key in self._trees:
            return self._trees[key]
        if key in self._tree_stack:
            raise Infinite(key)
        self._tree_stack.add(key)
        out = []
        if (i, j) in self.spans()[X]:
            for _, r in self.g.by_lhs[X]:
                for split in self._splits(r, 0, i, j):
                    combos = [()]
                    for (s, a, b) in split:
                        if self.g.is_nt(s):
                            subs = self.trees(s, a, b, limit)
                        else:
                            subs = [(s, self.skipped[a], b)]
                        combos = [c + (t,) for c in combos for t in subs]
                        if len(combos) > limit:
                            raise TooMany()
                    for c in combos:
                        out.append((X, tuple(r), c))
                    if len(out) > limit:
                        raise TooMany()
        self._tree_stack.discard(key)
        self._trees[key] = out
        return out

    _tree_stack = None

    def sentence_trees(self, end=None, limit=20000):
        """all derivation trees of the whole input (or of the prefix ending at
        node `end`)"""
        self._tree_stack = set()
        ends = [end] if end is not None else [p for p in self.nodes if self.is_final(p)]
        out = []
        for e in ends:
            out.extend(self.trees(self.g.start, 0, e, limit))
        return out

    def sentence_count(self, end=None):
        ends = [end] if end is not None else [p for p in self.nodes if self.is_final(p)]
        return sum(self.count(self.g.start, 0, e) for e in ends)

    def infinitely_ambiguous(self):
        """the input has infinitely many derivations (a useful chart item
        derives itself)"""
        try:
            self._count = {}
            self.sentence_count()
            return False
        except Infinite:
            self._count = {}
            return True


class Infinite(Exception):
    pass


class TooMany(Exception):
    pass
