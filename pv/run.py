"""python -m pv.run <ID> [--tier quick|thorough] [--sub name]

Exit 0: property held on everything explored (KNOWN-FINDING lines possible);
exit 1: VIOLATION lines; exit 2: harness error (never a violation)."""
import argparse
import os
import sys


def _reexec_with_fixed_hashseed():
    if os.environ.get("PYTHONHASHSEED") != "0":
        env = dict(os.environ)
        env["PYTHONHASHSEED"] = "0"
        os.execve(sys.executable, [sys.executable, "-m", "pv.run"] + sys.argv[1:], env)


def main():
    ap = argparse.ArgumentParser()
    ap.add_argument("prop")
    ap.add_argument("--tier", default=os.environ.get("VERIF_TIER") or "quick",
                    choices=["quick", "thorough"])
    ap.add_argument("--sub", default=None)
    a = ap.parse_args()
    _reexec_with_fixed_hashseed()
    try:
        seed = int(os.environ.get("VERIF_SEED", "1") or "1")
    except ValueError:
        seed = 1
    try:
        from pv import core
        rc = core.main(a.prop, a.tier, seed, a.sub)
    except Exception:
        import traceback
        print("HARNESS-ERROR " + traceback.format_exc())
        rc = 2
    sys.exit(rc)


if __name__ == "__main__":
    main()
