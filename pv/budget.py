"""Deterministic step budget (DESIGN 2.2): counts executed source lines of the
functions under test with sys.monitoring (PEP 669) and raises
StepBudgetExceeded from inside the monitored code when a budget is exceeded.
A separate SIGALRM watchdog only ever produces "inconclusive".
"""
import contextlib
import signal
import sys
import types

TOOL = 4  # a free tool id (0..5); 0-2 are reserved by convention


class StepBudgetExceeded(BaseException):
    """BaseException so that no `except Exception` in the code under test or in
    Hypothesis swallows it on the way out."""

    def __init__(self, steps, budget):
        super().__init__(f"step budget exceeded: {steps} > {budget}")
        self.steps = steps
        self.budget = budget


class WatchdogTimeout(BaseException):
    pass


def _code_objects(module):
    seen = set()
    out = []

    def add_code(co):
        if id(co) in seen:
            return
        seen.add(id(co))
        out.append(co)
        for c in co.co_consts:
            if isinstance(c, types.CodeType):
                add_code(c)

    def visit(obj):
        if isinstance(obj, types.FunctionType):
            if obj.__module__ == module.__name__:
                add_code(obj.__code__)
        elif isinstance(obj, (staticmethod, classmethod)):
            visit(obj.__func__)
        elif isinstance(obj, property):
            for f in (obj.fget, obj.fset, obj.fdel):
                if f is not None:
                    visit(f)
        elif isinstance(obj, type) and obj.__module__ == module.__name__:
            for v in vars(obj).values():
                visit(v)

    for v in vars(module).values():
        visit(v)
    return out


class _State:
    count = 0
    budget = None
    active = False
    registered = set()
    codes = {}
    tool_ok = False


def _on_line(code, line):
    _State.count += 1
    if _State.budget is not None and _State.count > _State.budget:
        # keep raising on every further line until steps() is left: a single
        # exception can be swallowed by C code that clears errors
        raise StepBudgetExceeded(_State.count, _State.budget)


def _ensure_tool():
    if not _State.tool_ok:
        mon = sys.monitoring
        if mon.get_tool(TOOL) is None:
            mon.use_tool_id(TOOL, "pv-budget")
        mon.register_callback(TOOL, mon.events.LINE, _on_line)
        _State.tool_ok = True


def _codes_for(module_names):
    out = []
    for name in module_names:
        if name not in _State.codes:
            mod = sys.modules.get(name)
            if mod is None:
                import importlib
                mod = importlib.import_module(name)
            _State.codes[name] = _code_objects(mod)
        out.extend(_State.codes[name])
    return out


def watch_modules(module_names):
    """Permanently enable LINE events on every function of the named modules
    (used where construction is always counted, e.g. C05)."""
    _ensure_tool()
    mon = sys.monitoring
    for co in _codes_for(module_names):
        mon.set_local_events(TOOL, co, mon.events.LINE)
    _State.registered.update(module_names)


TABLE_MODULES = ["parglare.tables", "parglare.closure"]
PARSE_MODULES = ["parglare.parser", "parglare.glr"]


@contextlib.contextmanager
def steps(budget=None, modules=None):
    """with steps(budget, modules) as s: ...; s.count afterwards.  If modules
    is given, LINE events are switched on for them only inside the block (line
    monitoring slows the monitored code down 6-10x, so the parse checks switch
    it on only to decide a suspected non-termination and for calibration
    samples).  Nested use is not supported (not needed)."""

    class R:
        count = 0

    r = R()
    temp = []
    if modules:
        _ensure_tool()
        mon = sys.monitoring
        temp = [co for m in modules if m not in _State.registered for co in _codes_for([m])]
        for co in temp:
            mon.set_local_events(TOOL, co, mon.events.LINE)
    _State.count = 0
    _State.budget = budget
    try:
        yield r
    finally:
        r.count = _State.count
        _State.budget = None
        for co in temp:
            sys.monitoring.set_local_events(TOOL, co, 0)


@contextlib.contextmanager
def watchdog(seconds):
    """SIGALRM watchdog; may be nested (the outer timer is suspended and
    resumed with its remaining time).  Only ever used to produce
    'inconclusive' or to trigger a deterministic re-run under steps()."""
    import time

    state = {"armed": True}

    def handler(signum, frame):
        # The timer is periodic: an exception raised from a signal handler can
        # be swallowed when it happens to land inside C code that clears
        # errors (observed with __hash__ called from dict look-ups), so keep
        # raising until the block is really left.
        if state["armed"]:
            raise WatchdogTimeout()

    old_handler = signal.signal(signal.SIGALRM, handler)
    old_delay, _ = signal.setitimer(signal.ITIMER_REAL, seconds, 0.05)
    t0 = time.monotonic()
    try:
        yield
    finally:
        while True:
            try:
                state["armed"] = False
                signal.setitimer(signal.ITIMER_REAL, 0)
                break
            except WatchdogTimeout:  # fired between leaving the block and here
                continue
        signal.signal(signal.SIGALRM, old_handler)
        if old_delay > 0:
            signal.setitimer(signal.ITIMER_REAL,
                             max(0.001, old_delay - (time.monotonic() - t0)), 0.05)


def guarded(fn, budget, modules, soft_timeout=2.0, sample=False):
    """Run fn() at full speed under a short watchdog; only if that fires (or
    when `sample` asks for a calibration run) re-run it under the deterministic
    line budget, which then decides: returns (result, steps or None) or raises
    StepBudgetExceeded.  fn must be re-runnable."""
    if not sample:
        try:
            with watchdog(soft_timeout):
                return fn(), None
        except WatchdogTimeout:
            pass
    with steps(budget, modules) as s:
        res = fn()
    return res, s.count
