"""Deterministic step budget (DESIGN 2.2): counts executed source lines of the
functions under test with sys.monitoring (PEP 669) and raises
StepBudgetExceeded from inside the monitored code when a budget is exceeded.
A separate SIGALRM watchdog only ever produces "inconclusive".
"""
import contextlib
import signal
import sys
import types

TOOL = 4  # a free tool id (0..5); 0-2 are reserved by convention


class StepBudgetExceeded(BaseException):
    """BaseException so that no `except Exception` in the code under test or in
    Hypothesis swallows it on the way out."""

    def __init__(self, steps, budget):
        super().__init__(f"step budget exceeded: {steps} > {budget}")
        self.steps = steps
        self.budget = budget


class WatchdogTimeout(BaseException):
    pass


def _code_objects(module):
    seen = set()
    out = []

    def add_code(co):
        if id(co) in seen:
            return
        seen.add(id(co))
        out.append(co)
        for c in co.co_consts:
            if isinstance(c, types.CodeType):
                add_code(c)

    def visit(obj):
        if isinstance(obj, types.FunctionType):
            if obj.__module__ == module.__name__:
                add_code(obj.__code__)
        elif isinstance(obj, (staticmethod, classmethod)):
            visit(obj.__func__)
        elif isinstance(obj, property):
            for f in (obj.fget, obj.fset, obj.fdel):
                if f is not None:
                    visit(f)
        elif isinstance(obj, type) and obj.__module__ == module.__name__:
            for v in vars(obj).values():
                visit(v)

    for v in vars(module).values():
        visit(v)
    return out


class _State:
    count = 0
    budget = None
    active = False
    registered = set()
    tool_ok = False


def _on_line(code, line):
    _State.count += 1
    if _State.budget is not None and _State.count > _State.budget:
        b = _State.budget
        _State.budget = None  # raise once
        raise StepBudgetExceeded(_State.count, b)


def _ensure_tool():
    if not _State.tool_ok:
        mon = sys.monitoring
        if mon.get_tool(TOOL) is None:
            mon.use_tool_id(TOOL, "pv-budget")
        mon.register_callback(TOOL, mon.events.LINE, _on_line)
        _State.tool_ok = True


def watch_modules(module_names):
    """Enable LINE events on every function of the named (imported) modules."""
    _ensure_tool()
    mon = sys.monitoring
    for name in module_names:
        if name in _State.registered:
            continue
        mod = sys.modules[name]
        for co in _code_objects(mod):
            mon.set_local_events(TOOL, co, mon.events.LINE)
        _State.registered.add(name)


TABLE_MODULES = ["parglare.tables", "parglare.closure"]
PARSE_MODULES = ["parglare.parser", "parglare.glr"]


@contextlib.contextmanager
def steps(budget=None):
    """with steps(budget) as s: ...; s.count afterwards.  Nested use is not
    supported (not needed)."""

    class R:
        count = 0

    r = R()
    _State.count = 0
    _State.budget = budget
    try:
        yield r
    finally:
        r.count = _State.count
        _State.budget = None


@contextlib.contextmanager
def watchdog(seconds):
    def handler(signum, frame):
        raise WatchdogTimeout()

    old = signal.signal(signal.SIGALRM, handler)
    signal.setitimer(signal.ITIMER_REAL, seconds)
    try:
        yield
    finally:
        signal.setitimer(signal.ITIMER_REAL, 0)
        signal.signal(signal.SIGALRM, old)
