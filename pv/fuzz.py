"""Coverage-guided campaign (atheris / libFuzzer) that drives a sub-check's very
same run_case through Hypothesis' fuzz_one_input: the bytes chosen by libFuzzer
are decoded by the sub-check's strategy into a structured case, parglare is
instrumented for coverage, the semantic oracle sits inside the target.

    python -m pv.fuzz <ID> <sub-check> <runs> <seed> <out.json>

Writes {"executions", "violations": [{case, kind, details}], "enabled"} to
out.json.  A campaign is pinned only approximately by -seed/-runs; its
reproducible unit is the saved failing case, which goes through pv.replay."""
import json
import os
import sys


def main():
    prop_id, sub_name, runs, seed, out_path = sys.argv[1], sys.argv[2], int(sys.argv[3]), int(sys.argv[4]), sys.argv[5]
    enabled = json.loads(os.environ.get("PV_ENABLED", "[]"))
    import atheris
    with atheris.instrument_imports(include=["parglare"]):
        import pv  # noqa
        import parglare  # noqa
        import parglare.glr  # noqa
        import parglare.parser  # noqa
        import parglare.tables  # noqa
        import parglare.grammar  # noqa
    from hypothesis import given, settings, HealthCheck
    from pv import core

    mod = core.load_prop(prop_id)
    sub = mod.subcheck(sub_name)
    if sub.setup:
        sub.setup()
    ctx = core.Ctx(enabled, "thorough")
    found = []
    state = {"n": 0}

    @settings(database=None, deadline=None, suppress_health_check=list(HealthCheck))
    @given(sub.strategy("thorough"))
    def test(case):
        state["n"] += 1
        ctx.evaluations += 1
        try:
            with core.quiet():
                sub.run_case(case, ctx)
        except core.Violation as v:
            if len(found) < 5:
                found.append({"case": case, "kind": v.kind, "details": v.details})

    def write():
        with open(out_path, "w") as f:
            json.dump({"executions": state["n"], "violations": found, "stats": ctx.result()}, f, default=repr)

    def target(data):
        test.hypothesis.fuzz_one_input(data)
        if state["n"] % 100 == 0:
            write()

    corpus = out_path + ".corpus"
    os.makedirs(corpus, exist_ok=True)
    atheris.Setup([sys.argv[0], "-runs=%d" % runs, "-seed=%d" % (seed or 1), "-max_len=4096",
                   "-print_final_stats=0", "-verbosity=0", corpus], target)
    try:
        atheris.Fuzz()
    finally:
        write()


if __name__ == "__main__":
    main()
