"""Shared differential core of C01-C04/C17: building parsers from generated
grammars, rendering token strings with generated layout, running a parse into
a uniform outcome, local validity of packed alternatives."""
import itertools

from . import budget, pgl
from .cfg import CFG
from .ref_chart import Chart, Lexicon
from . import trees as T

import parglare
from parglare.exceptions import LoopError

JUNK = "#"
FILLERS = ["", " ", "  ", "\t", "\n", " \n ", "\r\n", ""]


def render(tokens, fill, k=0):
    """tokens: list of token texts; fill: list of filler strings (generated);
    boundary i of input number k gets fill[(i + k) % len(fill)]"""
    n = len(fill)
    out = [fill[k % n]]
    for i, t in enumerate(tokens):
        out.append(t)
        out.append(fill[(i + 1 + k) % n])
    return "".join(out)


def token_texts(cfg):
    """the literal text of each string terminal (L0 lexicons)"""
    return {name: value for name, kind, value in cfg.terms if kind == "str"}


def l0_inputs(cfg, max_len, junk_upto=3):
    """all token strings up to max_len over the grammar's terminals, plus
    strings containing one junk character up to junk_upto"""
    texts = [v for _, k, v in cfg.terms]
    for n in range(0, max_len + 1):
        for w in itertools.product(texts, repeat=n):
            yield list(w)
    for n in range(1, junk_upto + 1):
        for w in itertools.product(texts + [JUNK], repeat=n):
            if w.count(JUNK) == 1:
                yield list(w)


def char_inputs(alphabet, max_len):
    for n in range(0, max_len + 1):
        for w in itertools.product(alphabet, repeat=n):
            yield "".join(w)


def parse_budget(text, cfg):
    return 3_000_000 + 150_000 * (len(text) + 1) * (len(cfg.prods) + 1)


def setup_parse_budget():
    """kept for symmetry: parse checks switch line monitoring on only when
    needed (budget.guarded)"""
    import parglare.parser  # noqa
    import parglare.glr  # noqa


def setup_all_budget():
    setup_parse_budget()


_calls = [0]


class Outcome:
    __slots__ = ("kind", "value", "exc", "steps")

    def __init__(self, kind, value=None, exc=None, steps=0):
        self.kind = kind      # "ok" | "syntax" | "other" | "budget"
        self.value = value
        self.exc = exc
        self.steps = steps


def run_parse(parser, text, B=None, soft_timeout=2.0, **kw):
    """parse into a uniform Outcome.  With a budget B the parse runs at full
    speed under a short watchdog and is re-run under the deterministic line
    budget only if the watchdog fires (and for 1 call in 64, to calibrate)."""
    try:
        if B is None:
            v, steps = parser.parse(text, **kw), 0
        else:
            _calls[0] += 1
            v, steps = budget.guarded(lambda: parser.parse(text, **kw), B, budget.PARSE_MODULES,
                                      soft_timeout=soft_timeout, sample=_calls[0] % 64 == 0)
        return Outcome("ok", v, steps=steps or 0)
    except budget.StepBudgetExceeded as e:
        return Outcome("budget", exc=e, steps=e.steps)
    except parglare.SyntaxError as e:
        if type(e) is not parglare.SyntaxError:
            return Outcome("other", exc=e)
        return Outcome("syntax", exc=e)
    except Exception as e:
        return Outcome("other", exc=e)


def run_parse_soft(parser, text, timeout, **kw):
    """parse under a short watchdog only; Outcome("timeout") when it fires.
    For checks that claim nothing about termination and merely have to get
    past a non-terminating parse."""
    try:
        with budget.watchdog(timeout):
            return run_parse(parser, text, None, **kw)
    except budget.WatchdogTimeout:
        return Outcome("timeout")


def reconverging(chart):
    """D14 signature: two token matches of this input end at the same position
    but were read from different nodes (different start)."""
    ends = {}
    for p in chart.nodes:
        for (t, q, e) in chart.edges[p]:
            ends.setdefault(e, set()).add(p)
    return any(len(s) > 1 for s in ends.values())


def local_validity(forest, cfg, text):
    """every packed alternative reachable from the forest root applies one
    production of the grammar to children of the right symbols in order;
    terminal values are the input slices.  Returns None or a reason."""
    prods = {(l, tuple(r)) for l, r in cfg.prods}
    tnames = set(cfg.term_names)
    for par, alt in T.walk_sppf(forest.result):
        if alt.is_term():
            name = alt.symbol.name
            if name not in tnames:
                return "unknown terminal %s" % name
            s, e = alt.start_position, alt.end_position
            if not (isinstance(s, int) and isinstance(e, int) and 0 <= s <= e <= len(text)):
                return "terminal %s has span %r..%r" % (name, s, e)
            if alt.value != text[s:e]:
                return "terminal %s value %r is not input[%d:%d]=%r" % (name, alt.value, s, e, text[s:e])
        else:
            k = pgl.prod_key(alt.production)
            if k not in prods:
                return "production %s -> %s not in grammar" % (k[0], " ".join(k[1]))
            kids = list(alt.children)
            if len(kids) != len(k[1]):
                return "production %s -> %s with %d children" % (k[0], " ".join(k[1]), len(kids))
            for sname, c in zip(k[1], kids):
                cname = c.head.symbol.name if hasattr(c, "head") else c.symbol.name
                if cname != sname:
                    return "child %s where %s expected in %s -> %s" % (cname, sname, k[0], " ".join(k[1]))
    return None


def forest_len(forest):
    """(n, None) or (None, "loop") - len() raises LoopError on cyclic forests"""
    try:
        # len() itself cannot return more than sys.maxsize (a limit of
        # Python's len protocol); .solutions is the same number unbounded
        return forest.solutions, None
    except LoopError:
        return None, "loop"
