"""python -m pv.replay <replay.json>  - run one stored case directly, without
Hypothesis.  Exit 1 + VIOLATION line if it (still) fails, else 0."""
import json
import sys

from pv import core


def main():
    path = sys.argv[1]
    with open(path) as f:
        w = json.load(f)
    prop = w["property"]
    v = core.replay_case(prop, w["sub"], w["case"], enabled=())
    if v is None:
        print("PASS %s" % path)
        sys.exit(0)
    print("FAIL %s" % v)
    print("VIOLATION property=%s replay=%s" % (prop, path))
    sys.exit(1)


if __name__ == "__main__":
    main()
