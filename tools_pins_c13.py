"""Regenerates regress/C13/greedy-pins.json: recorded behaviour of the greedy repetition operators on the exhaustive
two-item corpus (known findings D15/D16 tolerate the defects of the mechanism; the pins make a change of the mechanism visible)."""
import json, sys
sys.path.insert(0, '/verif')
from pv import core
from pv.props import c13
pins = {}
for case in c13.enum_greedy('quick'):
    ctx = core.Ctx(enabled_findings=["D15", "D16"])
    ctx._recording = {}
    with core.quiet():
        c13.run_greedy(case, ctx)
    pins.update(ctx._recording)
json.dump({"comment": "hash(items, input) -> 'rejected' | sorted extents of the trees returned by the greedy grammar",
           "pins": pins}, open('/verif/regress/C13/greedy-pins.json', 'w'), indent=0, sort_keys=True)
print(len(pins), "pins")
