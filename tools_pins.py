"""Regenerates regress/C03/D2-pins.json: the recorded manifestation (len, number of distinct trees) of known
finding D2 on the pinned corpus (classics + quick tiny-grammar enumeration).  Run only when D2's status changes."""
import json, sys
sys.path.insert(0, '/verif')
from pv import core, glrcore as G, pgl, trees as T
from pv.cfg import CFG
from pv.ref_chart import Lexicon
from pv.props import c03
from pv.props.c02 import sentences
pins = {}
clean = []
cases = list(c03.enum_classics('quick')) + list(c03.enum_tiny('quick')) + list(c03.enum_epsilon('quick'))
for case in cases:
    cfg = CFG.from_json(case['g'])
    lex = Lexicon(cfg.terms)
    with core.quiet():
        parser = pgl.GLRParser(pgl.Grammar.from_string(cfg.to_parglare()), tables=pgl.TABLES[case['table']])
    any_dup = False
    for text, chart in sentences(cfg, lex, case):
        out = G.run_parse(parser, text)
        if out.kind != 'ok':
            continue
        f = out.value
        try:
            n = f.solutions
        except Exception:
            continue
        if T.duplicate_alternatives(f.result):
            any_dup = True
            small = n <= c03.BIG
            d = len({T.canon(f[i]) for i in range(n)}) if small else -1
            pins[core.stable_hash([case['g'], case['table'], text])] = [str(n), d]
    if not any_dup:
        clean.append(core.stable_hash([case['g'], case['table'], case['max_len']]))
json.dump({"clean_comment": "hash(grammar, table, max_len) of corpus grammars on which no explored sentence shows duplicate packing",
           "clean": sorted(clean), "comment": "known finding D2 on the pinned corpus: hash(grammar, table, input) -> [len, distinct trees]",
           "pins": pins}, open('/verif/regress/C03/D2-pins.json', 'w'), indent=0, sort_keys=True)
print(len(pins), "pins", len(clean), "clean grammars")
