#!/bin/bash
# like tools_sweep_scratch.sh, but every seeded change given as argument gets its own scratch worktree and they
# run side by side (one line block per change, printed when it is done). usage: tools_sweep_par.sh <id> [<id> ...]
one() {
  id=$1
  wt=/tmp/repo-sweep-$id
  out=/tmp/pv-sweep-out-$id
  d=/verif/seeded/$id
  git -C /repo worktree remove --force $wt 2>/dev/null
  git -C /repo worktree add -q $wt HEAD || { echo "WORKTREE-FAILED $id"; return; }
  mkdir -p $out
  props=$(python3 -c "import json;m=json.load(open('$d/meta.json'));print(' '.join(dict.fromkeys(m['detected_by_quick_checks']+m.get('not_detected_by',[]))))")
  [ -n "$PROPS" ] && props="$PROPS"
  if ! git -C $wt apply $d/patch.diff 2>/dev/null; then echo "APPLY-FAILED $id"; else
    for p in $props; do
      o=$(cd /verif && PV_NO_SHRINK=1 PV_OUT_DIR=$out PV_REPO=$wt PYTHONPATH=$wt:/verif timeout 1200 /venv/bin/python -m pv.run $p --tier quick 2>&1); rc=$?
      echo "== $id/patch.diff on $p: exit=$rc $(echo "$o" | grep -c '^VIOLATION') violations
$(echo "$o" | grep -E "^  [a-zA-Z0-9-]+: " | head -1 | cut -c1-200)"
    done
  fi
  git -C /repo worktree remove --force $wt
  rm -rf $out
}
for id in "$@"; do one $id & done
wait
