"""Harness lint: a ctx.fail()/ctx.known() call that passes a keyword which the **info dict spread into the
same call already holds raises TypeError instead of reporting the violation.  Prints such call sites."""
import ast
import glob
import sys

bad = 0
for f in sorted(glob.glob('/verif/pv/props/c*.py')):
    tree = ast.parse(open(f).read())
    for fn in ast.walk(tree):
        if not isinstance(fn, ast.FunctionDef):
            continue
        dkeys = {}
        for n in ast.walk(fn):
            if isinstance(n, ast.Assign) and isinstance(n.value, ast.Call) and getattr(n.value.func, 'id', None) == 'dict':
                for t in n.targets:
                    if isinstance(t, ast.Name):
                        ks = set(k.arg for k in n.value.keywords if k.arg)
                        for k in n.value.keywords:
                            if k.arg is None and isinstance(k.value, ast.Name):
                                ks |= dkeys.get(k.value.id, set())
                        for a in n.value.args:
                            if isinstance(a, ast.Name):
                                ks |= dkeys.get(a.id, set())
                        dkeys[t.id] = dkeys.get(t.id, set()) | ks
            if isinstance(n, ast.Assign) and isinstance(n.targets[0], ast.Subscript) and \
                    isinstance(n.targets[0].value, ast.Name) and isinstance(n.targets[0].slice, ast.Constant):
                dkeys.setdefault(n.targets[0].value.id, set()).add(n.targets[0].slice.value)
        for n in ast.walk(fn):
            if isinstance(n, ast.Call) and isinstance(n.func, ast.Attribute) and n.func.attr in ('fail', 'known'):
                explicit = set(k.arg for k in n.keywords if k.arg)
                for k in n.keywords:
                    if k.arg is None and isinstance(k.value, ast.Name):
                        dup = explicit & dkeys.get(k.value.id, set())
                        if dup:
                            print("%s:%d duplicate keyword(s) %s" % (f, n.lineno, sorted(dup)))
                            bad += 1
sys.exit(1 if bad else 0)
